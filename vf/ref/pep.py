"""Structured peptide specification (`Pep`): the generator's own description of a peptide.

A writer renders it to ProForma text, `expected_fields` renders the annotation fields the text
denotes, `ref_mass` / `ref_comp` compute reference mass and composition - all without calling
peptacular. `observed_fields` dumps the public fields of a library annotation in the same shape.
"""
import copy
import re
from dataclasses import dataclass, field
from typing import Any, Dict, List, Optional, Tuple

from vf.ref import atoms, chem


def canonical(text: Any) -> Any:
    """int if the literal is an integer, float if numeric, else the text (ProForma value rule)."""
    if isinstance(text, (int, float)):
        return text
    try:
        return int(text)
    except ValueError:
        try:
            return float(text)
        except ValueError:
            return text


@dataclass
class M:
    text: str
    mult: int = 1
    mono: Optional[float] = None      # a-priori monoisotopic mass of ONE copy (None: not known a priori)
    avg: Optional[float] = None
    comp: Optional[dict] = None       # elemental composition of one copy (None: pure mass shift / none)
    kind: str = ''                    # spelling class, for signatures
    named: bool = False               # vocabulary entry (tabulated to 6 decimals)
    resolvable: bool = True           # library is expected to resolve it to a mass
    avg_consistent: bool = True       # tabulated average mass agrees with the tabulated composition

    def val(self) -> Any:
        return canonical(self.text)

    def written(self, ob: str = '[', cb: str = ']') -> str:
        return f'{ob}{self.text}{cb}' + (f'^{self.mult}' if self.mult > 1 else '')

    def pair(self) -> Tuple[Any, int]:
        return (self.val(), self.mult)

    def mass(self, mono: bool = True) -> float:
        m = self.mono if mono else self.avg
        if m is None:
            raise ValueError(f'no a-priori mass for {self.text}')
        return m * self.mult

    def is_numeric(self) -> bool:
        return isinstance(self.val(), (int, float))


@dataclass
class Rule:
    mods: List[M]
    targets: List[str]                                   # canonical: residue letters, 'N-Term', 'C-Term'
    spelling: Dict[str, str] = field(default_factory=dict)   # how a terminus is written ('N-term' is ProForma's own)

    def text(self) -> str:
        return ''.join(m.written() for m in self.mods) + '@' + ','.join(self.spelling.get(t, t) for t in self.targets)


@dataclass
class Iv:
    start: int
    end: int          # exclusive
    ambiguous: bool = False
    mods: List[M] = field(default_factory=list)


@dataclass
class Pep:
    seq: str
    labile: List[M] = field(default_factory=list)
    static: List[Rule] = field(default_factory=list)
    isotope: List[str] = field(default_factory=list)
    unknown: List[M] = field(default_factory=list)
    nterm: List[M] = field(default_factory=list)
    cterm: List[M] = field(default_factory=list)
    res: Dict[int, List[M]] = field(default_factory=dict)
    intervals: List[Iv] = field(default_factory=list)
    charge: Optional[int] = None
    adducts: Optional[str] = None
    charge_text: Optional[str] = None      # how the charge is written (e.g. '+2'); default str(charge)
    start_order: Optional[List[str]] = None  # order of the {labile} <static> <isotope> groups on input

    def copy(self) -> 'Pep':
        return copy.deepcopy(self)

    def all_mods(self) -> List[M]:
        out = list(self.labile) + list(self.unknown) + list(self.nterm) + list(self.cterm)
        for ms in self.res.values():
            out.extend(ms)
        for iv in self.intervals:
            out.extend(iv.mods)
        for r in self.static:
            out.extend(r.mods)
        return out

    def features(self) -> List[str]:
        f = []
        if self.labile:
            f.append('labile')
        if self.static:
            f.append('static')
            if any(t in ('N-Term', 'C-Term') for r in self.static for t in r.targets):
                f.append('static-term')
        if self.isotope:
            f.append('isotope')
        if self.unknown:
            f.append('unknown')
        if self.nterm:
            f.append('nterm')
        if self.cterm:
            f.append('cterm')
        if self.res:
            f.append('res')
            if any(len(v) > 1 for v in self.res.values()):
                f.append('res-multi')
        if self.intervals:
            f.append('interval')
            if any(iv.ambiguous for iv in self.intervals):
                f.append('interval-ambiguous')
            if any(iv.mods for iv in self.intervals):
                f.append('interval-mod')
        if self.charge is not None:
            f.append('charge-neg' if self.charge < 0 else 'charge')
        if self.adducts:
            f.append('adducts')
        if any(m.mult > 1 for m in self.all_mods()):
            f.append('mult')
        return f

    def spelling_classes(self) -> List[str]:
        return sorted({m.kind for m in self.all_mods() if m.kind})


# ---------------------------------------------------------------------------------------------
# writer
# ---------------------------------------------------------------------------------------------

def write(p: Pep) -> str:
    out = []
    groups = {
        'labile': [m.written('{', '}') for m in p.labile],
        'static': [f'<{r.text()}>' for r in p.static],
        'isotope': [f'<{i}>' for i in p.isotope],
    }
    for g in (p.start_order or ['labile', 'static', 'isotope']):
        out.extend(groups[g])
    if p.unknown:
        out.extend(m.written() for m in p.unknown)
        out.append('?')
    if p.nterm:
        out.extend(m.written() for m in p.nterm)
        out.append('-')
    starts = {iv.start: iv for iv in p.intervals}
    ends = {iv.end: iv for iv in p.intervals}
    for i, aa in enumerate(p.seq):
        if i in ends:
            out.append(')')
            out.extend(m.written() for m in ends[i].mods)
        if i in starts:
            out.append('(?' if starts[i].ambiguous else '(')
        out.append(aa)
        for m in p.res.get(i, []):
            out.append(m.written())
    if len(p.seq) in ends:
        out.append(')')
        out.extend(m.written() for m in ends[len(p.seq)].mods)
    if p.cterm:
        out.append('-')
        out.extend(m.written() for m in p.cterm)
    if p.charge is not None:
        out.append('/' + (p.charge_text if p.charge_text is not None else str(p.charge)))
        if p.adducts:
            out.append(f'[{p.adducts}]')
    return ''.join(out)


def write_multi(peps: List[Pep], links: List[bool]) -> str:
    s = write(peps[0])
    for p, link in zip(peps[1:], links):
        s += ('//' if link else '+') + write(p)
    return s


# ---------------------------------------------------------------------------------------------
# expected / observed field dumps
# ---------------------------------------------------------------------------------------------

def _norm(pairs):
    return sorted(pairs, key=repr) if pairs else None


def expected_fields(p: Pep) -> dict:
    return {
        'sequence': p.seq,
        'labile': _norm([m.pair() for m in p.labile]),
        'static': _norm([(r.text(), 1) for r in p.static]),
        'isotope': _norm([(canonical(i), 1) for i in p.isotope]),
        'unknown': _norm([m.pair() for m in p.unknown]),
        'nterm': _norm([m.pair() for m in p.nterm]),
        'cterm': _norm([m.pair() for m in p.cterm]),
        'internal': {i: _norm([m.pair() for m in ms]) for i, ms in sorted(p.res.items()) if ms} or None,
        'intervals': sorted(((iv.start, iv.end, iv.ambiguous, _norm([m.pair() for m in iv.mods]))
                             for iv in p.intervals), key=repr) or None,
        'charge': p.charge,
        'adducts': [(p.adducts, 1)] if p.adducts else None,
    }


def _mods(ms):
    if ms is None:
        return None
    return _norm([(m.val, m.mult) for m in ms])


def observed_fields(a) -> dict:
    """Public fields of a peptacular ProFormaAnnotation, same shape as expected_fields."""
    internal = None
    if a.internal_mods is not None:
        internal = {i: _mods(ms) for i, ms in sorted(a.internal_mods.items())} or None
    intervals = None
    if a.intervals is not None:
        intervals = sorted(((iv.start, iv.end, iv.ambiguous, _mods(iv.mods)) for iv in a.intervals),
                           key=repr) or None
    return {
        'sequence': a.sequence,
        'labile': _mods(a.labile_mods),
        'static': _mods(a.static_mods),
        'isotope': _mods(a.isotope_mods),
        'unknown': _mods(a.unknown_mods),
        'nterm': _mods(a.nterm_mods),
        'cterm': _mods(a.cterm_mods),
        'internal': internal,
        'intervals': intervals,
        'charge': a.charge,
        'adducts': _mods(a.charge_adducts),
    }


def diff_fields(exp: dict, obs: dict, strict: bool = False) -> Dict[str, Any]:
    """strict: an integer-valued and a float-valued shift (16 vs 16.0) are different values (Python's == says equal);
    used where the statement is about the text a result carries, not only about its mass"""
    if strict:
        return {k: {'expected': exp.get(k), 'observed': obs.get(k)} for k in exp
                if repr(exp.get(k)) != repr(obs.get(k))}
    return {k: {'expected': exp.get(k), 'observed': obs.get(k)} for k in exp if exp.get(k) != obs.get(k)}


# ---------------------------------------------------------------------------------------------
# structural operations on the spec (slice, explicit static form) - the expected side of C07/C11/C12
# ---------------------------------------------------------------------------------------------

def slice_pep(p: Pep, i: int, j: int) -> Pep:
    """Residues [i,j), their mods, fully contained intervals, termini only when included,
    global (labile/static/isotope/unknown/charge) annotations kept."""
    q = p.copy()
    q.seq = p.seq[i:j]
    q.res = {k - i: copy.deepcopy(v) for k, v in p.res.items() if i <= k < j}
    q.intervals = [Iv(iv.start - i, iv.end - i, iv.ambiguous, copy.deepcopy(iv.mods))
                   for iv in p.intervals if iv.start >= i and iv.end <= j]
    if i > 0:
        q.nterm = []
    if j < len(p.seq):
        q.cterm = []
    return q


def explicit_static(p: Pep) -> Pep:
    """The same peptide with every static rule written out on its targets (appended after existing mods)."""
    q = p.copy()
    q.static = []
    for r in p.static:
        for t in r.targets:
            if t == 'N-Term':
                q.nterm = q.nterm + copy.deepcopy(r.mods)
            elif t == 'C-Term':
                q.cterm = q.cterm + copy.deepcopy(r.mods)
            else:
                for idx, aa in enumerate(p.seq):
                    if aa == t:
                        q.res.setdefault(idx, [])
                        q.res[idx] = q.res[idx] + copy.deepcopy(r.mods)
    return q


def expand_terminal_static(p: Pep) -> Pep:
    """Static rules on N-Term / C-Term written out as terminal modifications (appended after the explicit ones); the
    rules keep their residue targets. This is the peptide whose pieces the fragment ions are."""
    q = p.copy()
    q.static = []
    for r in p.static:
        rest = [t for t in r.targets if t not in ('N-Term', 'C-Term')]
        if 'N-Term' in r.targets:
            q.nterm = q.nterm + copy.deepcopy(r.mods)
        if 'C-Term' in r.targets:
            q.cterm = q.cterm + copy.deepcopy(r.mods)
        if rest:
            q.static.append(Rule(copy.deepcopy(r.mods), rest, {k: v for k, v in r.spelling.items() if k in rest}))
    return q


# ---------------------------------------------------------------------------------------------
# adducts
# ---------------------------------------------------------------------------------------------
_ADDUCT = re.compile(r'^([+-]?)(\d*)([A-Za-z]+?)(\d*)([+-])$')


def parse_adducts(text: str) -> List[Tuple[int, str, int]]:
    """'+2Na+,-H+,+Mg2+' -> [(2,'Na',1), (-1,'H',1), (1,'Mg',2)]"""
    out = []
    for part in text.split(','):
        m = _ADDUCT.match(part)
        if not m:
            raise ValueError(part)
        sign, cnt, sym, q, qs = m.groups()
        count = int(cnt) if cnt else 1
        if sign == '-':
            count = -count
        charge = int(q) if q else 1
        if qs == '-':
            charge = -charge
        out.append((count, sym, charge))
    return out


def adduct_mass(text: str, mono: bool = True, emulate_k2: bool = False) -> float:
    """Sum over adduct ions of count * (atom - ioncharge * electron).
    emulate_k2: the known defect K2 - electrons removed once per term instead of `count` times."""
    f = atoms.mono if mono else atoms.average
    m = 0.0
    for count, sym, q in parse_adducts(text):
        if sym == 'e':
            m += count * atoms.ELECTRON
        elif emulate_k2:
            m += count * f(sym) - q * atoms.ELECTRON
        else:
            m += count * (f(sym) - q * atoms.ELECTRON)
    return m


def adduct_charge(text: str) -> int:
    return sum(c * q for c, _, q in parse_adducts(text))


# ---------------------------------------------------------------------------------------------
# reference mass / composition
# ---------------------------------------------------------------------------------------------
LABEL_ELEMENT = {'D': 'H', 'T': 'H'}


def label_map(labels: List[str]) -> Dict[str, str]:
    out = {}
    for lab in labels:
        out[LABEL_ELEMENT.get(lab, atoms.base_element(lab))] = lab
    return out


def apply_labels(comp: dict, labels: List[str]) -> dict:
    lm = label_map(labels)
    out: dict = {}
    for k, v in comp.items():
        kk = lm.get(k, k)
        out[kk] = out.get(kk, 0) + v
    return out


def placed_mods(p: Pep, ion_type: str = 'p') -> List[M]:
    """Every modification copy that contributes to the mass of the (whole) peptide ion."""
    out = list(p.unknown) + list(p.nterm) + list(p.cterm)
    for ms in p.res.values():
        out.extend(ms)
    for iv in p.intervals:
        out.extend(iv.mods)
    if ion_type == 'p':
        out.extend(p.labile)
    for r in p.static:
        for t in r.targets:
            k = 1 if t in ('N-Term', 'C-Term') else p.seq.count(t)
            for _ in range(k):
                out.extend(r.mods)
    return out


def ref_mass(p: Pep, ion_type: str = 'p', charge: Optional[int] = None, mono: bool = True, isotope: int = 0,
             loss: float = 0.0, adducts: Optional[str] = None, precision: Optional[int] = None,
             use_isotope_on_mods: bool = False, emulate: Tuple[str, ...] = ()) -> float:
    """Reference mass: residues + ion offset + mods + charge carriers + neutrons + loss.
    emulate: names of known-defect emulations ('K2' adduct electrons)."""
    if charge is None:
        charge = p.charge if p.charge is not None else 0
    if adducts is None:
        adducts = p.adducts
    backbone = chem.add(chem.residues_comp(p.seq), chem.ion_offset(ion_type))
    if p.isotope:
        backbone = apply_labels(backbone, p.isotope)
    m = atoms.comp_mass(backbone, mono)
    for mod in placed_mods(p, ion_type):
        if p.isotope and use_isotope_on_mods and mod.comp is not None:
            m += atoms.comp_mass(apply_labels(mod.comp, p.isotope), mono) * mod.mult
        else:
            m += mod.mass(mono)
    if adducts:
        m += adduct_mass(adducts, mono, emulate_k2='K2' in emulate)
    else:
        m += charge * atoms.PROTON
    m += isotope * atoms.NEUTRON + loss
    if precision is not None:
        m = round(m, precision)
    return m


def ref_comp(p: Pep, ion_type: str = 'p', use_isotope_on_mods: bool = False) -> Tuple[dict, float]:
    """(composition of the neutral species incl. composition-bearing mods, residual mass of numeric mods)."""
    comp = chem.add(chem.residues_comp(p.seq), chem.ion_offset(ion_type))
    if p.isotope:
        comp = apply_labels(comp, p.isotope)
    delta = 0.0
    for mod in placed_mods(p, ion_type):
        if mod.comp is not None:
            c = apply_labels(mod.comp, p.isotope) if (p.isotope and use_isotope_on_mods) else mod.comp
            comp = chem.add(comp, c, mod.mult)
        else:
            delta += mod.mass(True)
    return comp, delta


# ---------------------------------------------------------------------------------------------
# JSON round trip of the spec (replay files)
# ---------------------------------------------------------------------------------------------
import dataclasses as _dc


def to_json(p: Pep) -> dict:
    return _dc.asdict(p)


def _m(d) -> M:
    return M(**d)


def from_json(d: dict) -> Pep:
    return Pep(
        seq=d['seq'], labile=[_m(x) for x in d['labile']],
        static=[Rule([_m(x) for x in r['mods']], list(r['targets']), dict(r.get('spelling') or {})) for r in d['static']],
        isotope=list(d['isotope']), unknown=[_m(x) for x in d['unknown']], nterm=[_m(x) for x in d['nterm']],
        cterm=[_m(x) for x in d['cterm']], res={int(k): [_m(x) for x in v] for k, v in d['res'].items()},
        intervals=[Iv(i['start'], i['end'], i['ambiguous'], [_m(x) for x in i['mods']]) for i in d['intervals']],
        charge=d['charge'], adducts=d['adducts'], charge_text=d.get('charge_text'), start_order=d.get('start_order'))


def scrambled(pt, text, rng):
    """An annotation equal to parse(text) whose residue-modification dictionary and interval list are NOT in
    positional order - the state reverse(), shuffle() and programmatic add_* calls leave behind."""
    d = pt.parse(text).dict()
    if d.get('internal_mods'):
        items = list(d['internal_mods'].items())
        if rng.random() < 0.5:
            items.reverse()
        else:
            rng.shuffle(items)
        d['internal_mods'] = dict(items)
    if d.get('intervals'):
        ivs = list(d['intervals'])
        if rng.random() < 0.5:
            ivs.reverse()
        else:
            rng.shuffle(ivs)
        d['intervals'] = ivs
    return pt.create_annotation(**d)


def hollowed(pt, text):
    """An annotation equal to parse(text) that holds an EMPTY residue-modification dictionary where parse() leaves None -
    the state slice()/digest() give every peptide cut from a protein whose modified residues lie elsewhere, and the state
    pop_internal_mod() leaves behind.  Returned unchanged (plain parse) when the peptide has residue modifications."""
    a = pt.parse(text)
    if not a.has_internal_mods():
        a.add_internal_mod(0, 'Marker')
        a.pop_internal_mod(0)
    return a
