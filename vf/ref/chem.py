"""Residue and ion chemistry typed from textbook chemistry (independent of peptacular.constants)."""
from typing import Dict

from vf.ref import atoms

RESIDUES: Dict[str, Dict[str, int]] = {
    'G': {'C': 2, 'H': 3, 'N': 1, 'O': 1},
    'A': {'C': 3, 'H': 5, 'N': 1, 'O': 1},
    'S': {'C': 3, 'H': 5, 'N': 1, 'O': 2},
    'P': {'C': 5, 'H': 7, 'N': 1, 'O': 1},
    'V': {'C': 5, 'H': 9, 'N': 1, 'O': 1},
    'T': {'C': 4, 'H': 7, 'N': 1, 'O': 2},
    'C': {'C': 3, 'H': 5, 'N': 1, 'O': 1, 'S': 1},
    'I': {'C': 6, 'H': 11, 'N': 1, 'O': 1},
    'L': {'C': 6, 'H': 11, 'N': 1, 'O': 1},
    'J': {'C': 6, 'H': 11, 'N': 1, 'O': 1},
    'N': {'C': 4, 'H': 6, 'N': 2, 'O': 2},
    'D': {'C': 4, 'H': 5, 'N': 1, 'O': 3},
    'Q': {'C': 5, 'H': 8, 'N': 2, 'O': 2},
    'K': {'C': 6, 'H': 12, 'N': 2, 'O': 1},
    'E': {'C': 5, 'H': 7, 'N': 1, 'O': 3},
    'M': {'C': 5, 'H': 9, 'N': 1, 'O': 1, 'S': 1},
    'H': {'C': 6, 'H': 7, 'N': 3, 'O': 1},
    'F': {'C': 9, 'H': 9, 'N': 1, 'O': 1},
    'R': {'C': 6, 'H': 12, 'N': 4, 'O': 1},
    'Y': {'C': 9, 'H': 9, 'N': 1, 'O': 2},
    'W': {'C': 11, 'H': 10, 'N': 2, 'O': 1},
    'U': {'C': 3, 'H': 5, 'N': 1, 'O': 1, 'Se': 1},
    'O': {'C': 12, 'H': 19, 'N': 3, 'O': 2},
    'X': {},
}
MASS_LETTERS = sorted(RESIDUES)            # 24 letters with a defined mass (incl. X = 0, J)
ALL_LETTERS = sorted(set(RESIDUES) | {'B', 'Z'})   # the 26 accepted letters
STANDARD20 = list('ACDEFGHIKLMNPQRSTVWY')

WATER = {'H': 2, 'O': 1}
CO = {'C': 1, 'O': 1}
NH3 = {'N': 1, 'H': 3}
H2 = {'H': 2}


def add(a: dict, b: dict, k=1) -> dict:
    out = dict(a)
    for key, v in b.items():
        out[key] = out.get(key, 0) + v * k
    return {key: v for key, v in out.items() if v != 0}


def residues_comp(seq: str) -> dict:
    out: dict = {}
    for aa in seq:
        out = add(out, RESIDUES[aa])
    return out


def cmass(comp: dict, mono: bool = True) -> float:
    return atoms.comp_mass(comp, mono)


def residue_mass(aa: str, mono: bool = True) -> float:
    return cmass(RESIDUES[aa], mono)


# Neutral offset (as a composition, relative to the plain residue sum) of each fragment kind,
# and the number of "built-in" charge carriers (protons) of the singly charged ion.
# b = residues + H+ ; a = b - CO ; c = b + NH3 ; y = residues + H2O + H+ ; x = y + CO - H2 ; z = y - NH3
TERMINAL_OFFSETS = {
    'b': {},
    'a': add({}, CO, -1),
    'c': dict(NH3),
    'y': dict(WATER),
    'x': add(add(WATER, CO), H2, -1),
    'z': add(WATER, NH3, -1),
}
FORWARD = ('a', 'b', 'c')
BACKWARD = ('x', 'y', 'z')
INTERNAL = tuple(f + b for f in FORWARD for b in BACKWARD)
ALL_ION_TYPES = FORWARD + BACKWARD + INTERNAL + ('i',)


def ion_offset(ion_type: str) -> dict:
    """Composition added to the residue sum of the span for a *singly protonated* ion, proton excluded."""
    if ion_type in TERMINAL_OFFSETS:
        return TERMINAL_OFFSETS[ion_type]
    if ion_type == 'i':
        return add({}, CO, -1)                      # immonium = residue - CO + H+
    if ion_type == 'p':
        return dict(WATER)
    if ion_type == 'n':
        return {}
    if len(ion_type) == 2:
        # XY(i,j) = X_j + Y_(n-i) - M - H+  =>  offset(X) + offset(Y) - H2O
        f, b = ion_type[0], ion_type[1]
        return add(add(TERMINAL_OFFSETS[f], TERMINAL_OFFSETS[b]), WATER, -1)
    raise KeyError(ion_type)
