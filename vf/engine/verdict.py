"""Per-shard context: counters, feature signatures, samples, violations (three-valued verdicts)."""
import hashlib
import json
import random
import time
from collections import Counter
from typing import Any, Dict, List, Optional

from vf.engine.attach import Engine

MAX_FULL_VIOLATIONS = 40


def jsonable(x: Any, depth: int = 0) -> Any:
    if depth > 6:
        return repr(x)
    if x is None or isinstance(x, (bool, int, str)):
        return x
    if isinstance(x, float):
        if x != x or x in (float('inf'), float('-inf')):
            return repr(x)
        return x
    if isinstance(x, (list, tuple)):
        return [jsonable(i, depth + 1) for i in x]
    if isinstance(x, (set, frozenset)):
        return sorted((jsonable(i, depth + 1) for i in x), key=repr)
    if isinstance(x, dict):
        return {str(k): jsonable(v, depth + 1) for k, v in x.items()}
    return repr(x)


class Ctx:
    def __init__(self, prop: str, tier: str, seed: int, shard: int, nshards: int):
        self.prop = prop
        self.tier = tier
        self.seed = seed
        self.shard = shard
        self.nshards = nshards
        self.rng = random.Random(f'{prop}/{seed}/{shard}/{nshards}')
        self.eng = Engine()
        self.evaluations = 0
        self.cases = 0
        self.sigs: Dict[str, bool] = {}
        self.samples: List[Any] = []
        self.violations: List[dict] = []
        self.viol_counts: Counter = Counter()
        self.kf_counts: Counter = Counter()
        self.kf_examples: Dict[str, Any] = {}
        self.inconclusive: List[str] = []
        self.notes: Counter = Counter()
        self.extra: Dict[str, Any] = {}
        self.current_case: Any = None
        self.t0 = time.time()
        self.replaying = False
        # interleaved other uses of the library (vf.gen.disturb), switched on per check by enable_disturb()
        self._disturb_pt = None
        self._disturb_rate = 0.0
        self._disturb_rng = random.Random(f'disturb/{prop}/{seed}/{shard}/{nshards}')

    # ------------------------------------------------------------------
    def mine(self, i: int) -> bool:
        return i % self.nshards == self.shard

    def quick(self) -> bool:
        return self.tier == 'quick'

    def n(self, quick: int, thorough: int) -> int:
        """Number of random cases for this shard."""
        total = quick if self.tier == 'quick' else thorough
        base, rem = divmod(total, self.nshards)
        return base + (1 if self.shard < rem else 0)

    def enable_disturb(self, pt, rate: float = 0.03) -> None:
        """From now on a share of the cases is preceded by one other legitimate use of the library (failed parse, FASTA
        read, unresolvable mass request, ... see vf.gen.disturb) made under Engine.suspend(); own random stream, so the
        workload's case sequence is the same with and without it."""
        self._disturb_pt = pt
        self._disturb_rate = rate

    def begin(self, case: Any) -> None:
        if self._disturb_rate and not self.replaying and self._disturb_rng.random() < self._disturb_rate:
            from vf.gen.disturb import disturb
            kind = disturb(self._disturb_rng, self._disturb_pt, self.eng)
            d = self.extra.setdefault('interleaved_other_calls', {})
            d[kind] = d.get(kind, 0) + 1
        self.current_case = case
        self.cases += 1

    def decided(self, n: int = 1) -> None:
        self.evaluations += n

    def sig(self, signature: Any, nontrivial: bool = True) -> None:
        s = signature if isinstance(signature, str) else json.dumps(jsonable(signature), sort_keys=True)
        if len(s) > 200:
            s = s[:160] + '#' + hashlib.sha1(s.encode()).hexdigest()[:12]
        if nontrivial:
            self.sigs[s] = True
        else:
            self.sigs.setdefault(s, False)

    def sample(self, obj: Any, every: int = 1) -> None:
        if len(self.samples) < 4:
            self.samples.append(jsonable(obj))
        elif self.rng.random() < 0.0005 and len(self.samples) < 8:
            self.samples.append(jsonable(obj))

    def note(self, key: str, n: int = 1) -> None:
        self.notes[key] += n

    def violation(self, kind: str, detail: Optional[dict] = None, kf: Optional[str] = None, case: Any = None) -> None:
        """Record a violation. ``kf`` is the id of the known finding whose exact emulation
        reproduces the observed value (None = unexplained)."""
        key = f'{kind}|{kf or ""}'
        self.viol_counts[key] += 1
        if kf is not None:
            self.kf_counts[kf] += 1
            if kf not in self.kf_examples:
                self.kf_examples[kf] = jsonable({'kind': kind, 'detail': detail,
                                                 'case': case if case is not None else self.current_case})
        if len(self.violations) < MAX_FULL_VIOLATIONS or (kf is None and self.viol_counts[key] <= 3):
            self.violations.append({
                'property': self.prop, 'kind': kind, 'kf': kf,
                'detail': jsonable(detail or {}),
                'case': jsonable(case if case is not None else self.current_case),
            })

    def inconclusive_case(self, reason: str) -> None:
        if len(self.inconclusive) < 50:
            self.inconclusive.append(reason)
        self.notes['inconclusive_cases'] += 1

    def result(self) -> dict:
        return {
            'property': self.prop, 'tier': self.tier, 'seed': self.seed,
            'shard': self.shard, 'nshards': self.nshards,
            'evaluations': self.evaluations, 'cases': self.cases,
            'sigs': self.sigs, 'samples': self.samples,
            'violations': self.violations, 'viol_counts': dict(self.viol_counts),
            'kf_counts': dict(self.kf_counts), 'kf_examples': self.kf_examples,
            'inconclusive': self.inconclusive, 'notes': dict(self.notes),
            'engine': self.eng.summary(), 'extra': jsonable(self.extra),
            'wall_s': time.time() - self.t0,
        }
