"""Independent reader of the bundled vocabulary *data* files (OBO text).

Shares no code with peptacular. Yields for every non-obsolete term: accession (prefix
stripped), name, synonyms, tabulated monoisotopic/average mass and the raw composition as
a dict (None when the row has none or it is not expressible in plain elements).
"""
import importlib.util
import os
import re
from functools import lru_cache
from typing import Dict, List, Optional

from vf.ref import atoms


def data_dir() -> str:
    spec = importlib.util.find_spec('peptacular')
    return os.path.join(os.path.dirname(spec.origin), 'data')


class Entry:
    __slots__ = ('id', 'name', 'synonyms', 'mono', 'avg', 'comp', 'raw_comp')

    def __init__(self, id, name, synonyms, mono, avg, comp, raw_comp):
        self.id = id
        self.name = name
        self.synonyms = synonyms
        self.mono = mono
        self.avg = avg
        self.comp = comp
        self.raw_comp = raw_comp

    def __repr__(self):
        return f'Entry({self.id!r}, {self.name!r}, mono={self.mono}, comp={self.comp})'


def _terms(path: str):
    cur = None
    with open(path) as f:
        for line in f:
            line = line.rstrip('\n')
            if line.startswith('['):
                if cur is not None:
                    yield cur
                cur = {} if line.startswith('[Term]') else None
                continue
            if cur is None or ': ' not in line:
                continue
            k, v = line.split(': ', 1)
            cur.setdefault(k, []).append(v)
    if cur is not None:
        yield cur


def _q(v: str) -> str:
    m = re.search(r'"(.*?)"', v)
    return m.group(1) if m else ''


def _num(s: Optional[str]) -> Optional[float]:
    if s is None or s == 'none' or s == '':
        return None
    try:
        return float(s)
    except ValueError:
        return None


# brick symbols Unimod uses in delta_composition that are not chemical elements
UNIMOD_BRICKS = {
    'Hex': {'C': 6, 'H': 10, 'O': 5}, 'HexNAc': {'C': 8, 'H': 13, 'N': 1, 'O': 5},
    'dHex': {'C': 6, 'H': 10, 'O': 4}, 'NeuAc': {'C': 11, 'H': 17, 'N': 1, 'O': 8},
    'NeuGc': {'C': 11, 'H': 17, 'N': 1, 'O': 9}, 'Pent': {'C': 5, 'H': 8, 'O': 4},
    'HexA': {'C': 6, 'H': 8, 'O': 6}, 'Kdn': {'C': 9, 'H': 14, 'O': 8},
    'Hep': {'C': 7, 'H': 12, 'O': 6}, 'HexN': {'C': 6, 'H': 11, 'N': 1, 'O': 4},
    'Me': {'C': 1, 'H': 2}, 'Ac': {'C': 2, 'H': 2, 'O': 1},
    'Sulf': {'S': 1, 'O': 3}, 'Phos': {'H': 1, 'P': 1, 'O': 3}, 'Water': {'H': 2, 'O': 1},
}


def _add(d: dict, k: str, v) -> None:
    d[k] = d.get(k, 0) + v


def _unimod_comp(raw: str) -> Optional[Dict[str, int]]:
    comp: Dict[str, int] = {}
    for tok in raw.split():
        m = re.fullmatch(r'([0-9]*[A-Za-z]+)(?:\((-?\d+)\))?', tok)
        if not m:
            return None
        sym, cnt = m.group(1), int(m.group(2)) if m.group(2) else 1
        if sym in UNIMOD_BRICKS:
            for e, c in UNIMOD_BRICKS[sym].items():
                _add(comp, e, c * cnt)
        elif atoms.is_known(sym):
            _add(comp, sym, cnt)
        else:
            return None
    return {k: v for k, v in comp.items() if v != 0}


@lru_cache(maxsize=None)
def unimod() -> List[Entry]:
    out = []
    for t in _terms(os.path.join(data_dir(), 'unimod.obo')):
        if t.get('is_obsolete', ['false'])[0] == 'true':
            continue
        name = t['name'][0]
        if name == 'unimod root node':
            continue
        x = {}
        for v in t.get('xref', []):
            x.setdefault(v.split(' ', 1)[0], _q(v))
        raw = x.get('delta_composition')
        out.append(Entry(t['id'][0].replace('UNIMOD:', ''), name, [_q(s) for s in t.get('synonym', [])],
                         _num(x.get('delta_mono_mass')), _num(x.get('delta_avge_mass')),
                         _unimod_comp(raw) if raw else None, raw))
    return out


def _spaced_comp(raw: str) -> Optional[Dict[str, int]]:
    toks = raw.split()
    if len(toks) % 2:
        return None
    comp: Dict[str, int] = {}
    for sym, cnt in zip(toks[::2], toks[1::2]):
        sym = sym.replace('(', '').replace(')', '')
        try:
            c = int(cnt)
        except ValueError:
            return None
        if not atoms.is_known(sym):
            return None
        _add(comp, sym, c)
    return {k: v for k, v in comp.items() if v != 0}


@lru_cache(maxsize=None)
def psimod() -> List[Entry]:
    out = []
    for t in _terms(os.path.join(data_dir(), 'psi-mod.obo')):
        if t.get('is_obsolete', ['false'])[0] == 'true':
            continue
        x = {}
        for v in t.get('xref', []):
            if '"' in v:
                x.setdefault(v.split(' ', 1)[0].replace(':', ''), _q(v))
        raw = x.get('DiffFormula')
        if raw == 'none':
            raw = None
        out.append(Entry(t['id'][0].replace('MOD:', ''), t['name'][0], [_q(s) for s in t.get('synonym', [])],
                         _num(x.get('DiffMono')), _num(x.get('DiffAvg')),
                         _spaced_comp(raw) if raw else None, raw))
    return out


def _xl_comp(raw: str) -> Optional[Dict[str, int]]:
    comp: Dict[str, int] = {}
    for tok in raw.split():
        sign = 1
        if tok.startswith('-'):
            sign, tok = -1, tok[1:]
        m = re.fullmatch(r'(D|T|[0-9]*[A-Z][a-z]?)(\d*)', tok)
        if not m or not atoms.is_known(m.group(1)):
            return None
        _add(comp, m.group(1), sign * (int(m.group(2)) if m.group(2) else 1))
    return {k: v for k, v in comp.items() if v != 0}


@lru_cache(maxsize=None)
def xlmod() -> List[Entry]:
    out = []
    for t in _terms(os.path.join(data_dir(), 'xlmod.obo')):
        if t.get('is_obsolete', ['false'])[0] == 'true':
            continue
        x = {}
        for v in t.get('property_value', []):
            if '"' in v:
                x.setdefault(v.split(' ', 1)[0].replace(':', ''), _q(v))
        raw = x.get('bridgeFormula', x.get('deadEndFormula'))
        out.append(Entry(t['id'][0].replace('XLMOD:', ''), t['name'][0], [_q(s) for s in t.get('synonym', [])],
                         _num(x.get('monoIsotopicMass')), None, _xl_comp(raw) if raw else None, raw))
    return out


def _plain_formula(raw: str) -> Optional[Dict[str, int]]:
    comp: Dict[str, int] = {}
    pos = 0
    for m in re.finditer(r'([A-Z][a-z]?)(\d*)', raw):
        if m.start() != pos:
            return None
        pos = m.end()
        _add(comp, m.group(1), int(m.group(2)) if m.group(2) else 1)
    return {k: v for k, v in comp.items() if v != 0} if pos == len(raw) else None


@lru_cache(maxsize=None)
def monosaccharides() -> List[Entry]:
    out = []
    for t in _terms(os.path.join(data_dir(), 'monosaccharides_updated.obo')):
        if t.get('is_obsolete', ['false'])[0] == 'true':
            continue
        x = {}
        for v in t.get('property_value', []):
            x.setdefault(v.split(' ', 1)[0], _q(v))
        raw = x.get('has_chemical_formula')
        out.append(Entry(t['id'][0].replace('MONO:', ''), t['name'][0], [_q(s) for s in t.get('synonym', [])],
                         _num(x.get('has_monoisotopic_mass')), _num(x.get('has_average_mass')),
                         _plain_formula(raw) if raw else None, raw))
    return out


@lru_cache(maxsize=None)
def unimod_by_name() -> Dict[str, Entry]:
    return {e.name: e for e in unimod()}


@lru_cache(maxsize=None)
def mono_names() -> Dict[str, Entry]:
    d = {}
    for e in monosaccharides():
        d[e.name] = e
        for s in e.synonyms:
            d.setdefault(s, e)
    return d
