"""python -m vf.replay replays/<id>/<hash>.json  - re-run one recorded case under the same monitors."""
import json
import sys
import warnings

import vf  # noqa: F401
from vf.engine.verdict import Ctx
from vf.run import check_module


def main(argv=None) -> int:
    argv = argv or sys.argv[1:]
    with open(argv[0]) as f:
        w = json.load(f)
    prop = w['property']
    mod = check_module(prop)
    ctx = Ctx(prop, 'quick', 0, 0, 1)
    ctx.replaying = True
    warnings.simplefilter('ignore')
    print(f'replaying {prop} kind={w["kind"]} case={json.dumps(w["case"])[:400]}')
    print(f'recorded detail: {json.dumps(w["detail"])[:1200]}')
    try:
        mod.replay(ctx, w['case'])
    finally:
        ctx.eng.detach_all()
    if not ctx.violations:
        print('replay: no violation observed on the current tree')
        return 0
    for v in ctx.violations:
        print(f'replay: VIOLATION kind={v["kind"]} kf={v["kf"]} detail={json.dumps(v["detail"])[:1200]}')
    return 1


if __name__ == '__main__':
    sys.exit(main())
