"""Runs checks against a seeded change without touching /repo's working tree.

    python -m vf.seedtest seeded/C01-a [--checks C01 C20] [--tier quick] [--confirm]

A scratch git worktree of /repo HEAD is created under /tmp, seeded/<id>/patch.diff is applied there, and the
requested checks are run with PYTHONPATH pointing at the worktree's src (the shards import peptacular from there,
the evidence files of /verif are not rewritten). With --confirm the change itself is validated first: the 111 pinned
tests must pass with the patch, the demonstration must fail with it and pass without it. The worktree is removed
afterwards.
"""
import argparse
import json
import os
import shutil
import subprocess
import sys
import tempfile
import time

import vf

PY = '/venv/bin/python'
REPO = '/repo'


def sh(cmd, cwd=None, env=None, timeout=3600):
    p = subprocess.run(cmd, cwd=cwd, env=env, capture_output=True, text=True, timeout=timeout)
    return p.returncode, (p.stdout + p.stderr)


def main(argv=None) -> int:
    ap = argparse.ArgumentParser()
    ap.add_argument('seed_dir')
    ap.add_argument('--checks', nargs='*', default=None)
    ap.add_argument('--tier', default='quick')
    ap.add_argument('--seed', default='0')
    ap.add_argument('--confirm', action='store_true')
    args = ap.parse_args(argv)
    sd = os.path.abspath(args.seed_dir)
    meta = json.load(open(os.path.join(sd, 'meta.json'))) if os.path.exists(os.path.join(sd, 'meta.json')) else {}
    checks = args.checks or meta.get('expected_checks') or [meta.get('property')]
    wt = tempfile.mkdtemp(prefix='vf_seed_')
    os.rmdir(wt)
    out = {'seed': os.path.basename(sd), 'checks': {}, 'confirm': {}}
    try:
        rc, o = sh(['git', '-C', REPO, 'worktree', 'add', '-q', '--detach', wt, 'HEAD'])
        if rc:
            print(o)
            return 2
        env = dict(os.environ)
        env['PYTHONPATH'] = os.path.join(wt, 'src')
        env['PYTHONHASHSEED'] = '0'
        demo = [f for f in sorted(os.listdir(sd)) if f.startswith('demo') and f.endswith('.py')]
        if args.confirm and demo:
            rc, o = sh([PY, os.path.join(sd, demo[0])], cwd=wt, env=env)
            out['confirm']['demo_without_patch_exit'] = rc
        rc, o = sh(['git', '-C', wt, 'apply', os.path.join(sd, 'patch.diff')])
        if rc:
            print('patch does not apply:', o)
            out['confirm']['applies'] = False
            print(json.dumps(out, indent=1))
            return 2
        if args.confirm:
            rc, o = sh([PY, '-m', 'pytest', '-q', '-p', 'no:cacheprovider', '--timeout=900'], cwd=wt, env=env)
            out['confirm']['tests'] = o.strip().split('\n')[-1]
            out['confirm']['tests_exit'] = rc
            if demo:
                rc, o = sh([PY, os.path.join(sd, demo[0])], cwd=wt, env=env)
                out['confirm']['demo_with_patch_exit'] = rc
                out['confirm']['demo_output'] = o.strip()[-400:]
        for c in checks:
            t0 = time.time()
            env2 = dict(env)
            env2['VERIF_SEED'] = str(args.seed)
            rc, o = sh([PY, '-m', 'vf.run', c, '--tier', args.tier, '--no-evidence'], cwd=vf.ROOT, env=env2,
                       timeout=7200)
            lines = [l for l in o.strip().split('\n') if l and not l.startswith('KNOWN-FINDING')]
            out['checks'][c] = {'exit': rc, 'wall_s': round(time.time() - t0, 1),
                                'summary': [l[:300] for l in lines[-4:]]}
    finally:
        sh(['git', '-C', REPO, 'worktree', 'remove', '--force', wt])
        shutil.rmtree(wt, ignore_errors=True)
        shutil.rmtree(os.path.join(vf.ROOT, 'replays'), ignore_errors=True)
    print(json.dumps(out, indent=1))
    caught = [c for c, r in out['checks'].items() if r['exit'] == 1]
    print('CAUGHT BY:', ' '.join(caught) if caught else 'nothing')
    return 0


if __name__ == '__main__':
    sys.exit(main())
