"""C01 - ProForma text <-> annotation objects are faithful inverses."""
from vf.gen import pep as gp
from vf.ref import pep as rp

DECIDING = ['peptacular.proforma.proforma_parser.parse',
            'peptacular.proforma.proforma_parser.ProFormaAnnotation.serialize']
SHARDS = {'quick': 16, 'thorough': 16}
RULE = ('Pep specifications drawn by the structured generator (all modification kinds and spellings, intervals, '
        'charge/adducts, 1-3 chains joined by + or //), rendered to text by the reference writer; parse is checked '
        'against the fields the text was rendered from, every serialize (include_plus False/True, function and '
        'method form, nested calls too) against re-parse equality and re-serialisation fixed point. '
        'signature = (modification kinds, spelling classes, chains, link kinds); non-trivial = at least two '
        'modification kinds or at least two chains')
ASSUMPTIONS = ['only grammar-derivable strings are generated (no nan/inf/exponent/underscore numerals, no names that '
               'cannot be written inside the bracket kind at hand)',
               'serialize monitors are decisive only for annotations returned by a monitored parse and not edited since']
LEVEL_TEXT = ('Every parse/serialize execution (top-level and nested) is checked by a post-condition against an '
              'independent structural description of the input; held on the executions observed.')
TECHNIQUE = 'runtime monitoring: icontract post-conditions on parse/serialize with a generator-side structural oracle'


def dump(a):
    """Structural dump of a (Multi)ProFormaAnnotation from public fields."""
    if hasattr(a, 'annotations'):
        return {'chains': [rp.observed_fields(x) for x in a.annotations], 'links': list(a.connections)}
    return rp.observed_fields(a)


class State:
    def __init__(self):
        self.expect = None       # (peps, links) for the current depth-0 parse
        self.registry = {}       # id(annotation) -> (annotation, dump at parse time)
        self.parse_checked = 0
        self.ser_decisive = 0
        self.ser_info_only = 0


def install(ctx, st: State):
    import peptacular as pt
    from peptacular.proforma import proforma_parser as pp
    parse0 = pp.parse

    def register(a):
        if len(st.registry) > 4000:
            st.registry.clear()
        st.registry[id(a)] = (a, dump(a))
        if hasattr(a, 'annotations'):
            for x in a.annotations:
                st.registry[id(x)] = (x, dump(x))

    def parse_post(call):
        a = call.result
        register(a)
        if call.depth == 0 and st.expect is not None:
            peps, links = st.expect
            st.parse_checked += 1
            ctx.decided()
            if len(peps) == 1:
                if hasattr(a, 'annotations'):
                    ctx.violation('parse-wrong-type', {'text': call.args[0], 'observed': 'Multi'})
                    return
                d = rp.diff_fields(rp.expected_fields(peps[0]), rp.observed_fields(a))
                if d:
                    ctx.violation('parse-fields-differ', {'text': call.args[0], 'diff': d})
            else:
                if not hasattr(a, 'annotations'):
                    ctx.violation('parse-wrong-type', {'text': call.args[0], 'observed': 'Single'})
                    return
                if len(a.annotations) != len(peps) or list(a.connections) != list(links):
                    ctx.violation('parse-chains-differ', {'text': call.args[0], 'expected_links': links,
                                                          'observed_links': list(a.connections),
                                                          'chains': len(a.annotations)})
                    return
                for k, (p, x) in enumerate(zip(peps, a.annotations)):
                    d = rp.diff_fields(rp.expected_fields(p), rp.observed_fields(x))
                    if d:
                        ctx.violation('parse-fields-differ', {'text': call.args[0], 'chain': k, 'diff': d})

    def roundtrip(a, plus, s, multi):
        """returns None if ok, else (kind, detail)"""
        try:
            a2 = parse0(s)
        except Exception as e:
            return 'serialized-text-does-not-parse', {'serialized': s, 'exception': f'{type(e).__name__}: {e}'[:200]}
        if hasattr(a2, 'annotations') != multi:
            return 'reparse-wrong-type', {'serialized': s}
        if dump(a2) != dump(a):
            d = dump(a)
            d2 = dump(a2)
            return 'reparse-not-equal', {'serialized': s, 'argument': d, 'reparsed': d2}
        try:
            if not (a2 == a):
                return 'reparse-not-equal-by-library-eq', {'serialized': s}
        except Exception as e:
            return 'eq-raises', {'serialized': s, 'exception': type(e).__name__}
        s2 = a2.serialize(plus)
        if s2 != s:
            return 'reserialize-not-fixed-point', {'serialized': s, 'reserialized': s2}
        return None

    def ser_post(call, multi=False):
        if call.name.endswith('proforma_parser.serialize'):
            a = call.args[0] if call.args else call.kwargs.get('annotation')
            plus = call.arg(1, 'include_plus', False)
        else:
            a = call.args[0]
            plus = call.arg(1, 'include_plus', False)
        multi = hasattr(a, 'annotations')
        s = call.result
        reg = st.registry.get(id(a))
        decisive = reg is not None and reg[0] is a and reg[1] == dump(a)
        bad = roundtrip(a, plus, s, multi)
        if not decisive:
            st.ser_info_only += 1
            if bad:
                ctx.note('info_only_roundtrip_failures:' + bad[0])
            return
        st.ser_decisive += 1
        ctx.decided()
        if bad is None:
            return
        kind, detail = bad
        detail['include_plus'] = plus
        kf = None
        if multi and any(a.connections):
            chains = [x.serialize(plus) for x in a.annotations]
            correct, emulated = chains[0], chains[0]
            for x, link in zip(chains[1:], a.connections):
                correct += ('//' if link else '+') + x
                emulated += ('\\\\' if link else '+') + x
            if s == emulated and s != correct:
                try:
                    back = parse0(correct)
                    if hasattr(back, 'annotations') and dump(back) == dump(a):
                        kf = 'K1'
                except Exception:
                    pass
        ctx.violation(kind, detail, kf=kf)

    ctx.eng.attach('peptacular.proforma.proforma_parser.parse', post=parse_post)
    ctx.eng.attach('peptacular.proforma.proforma_parser.serialize', post=ser_post)
    ctx.eng.attach('peptacular.proforma.proforma_parser.ProFormaAnnotation.serialize', post=ser_post)
    ctx.eng.attach('peptacular.proforma.proforma_parser.MultiProFormaAnnotation.serialize', post=ser_post)
    return pt


def make_case(rng, cfg):
    nch = 1 if rng.random() < 0.7 else rng.randint(2, 3)
    peps = [gp.gen_pep(rng, cfg) for _ in range(nch)]
    links = [rng.random() < 0.5 for _ in peps[1:]]
    return peps, links


def run_case(ctx, st, pt, peps, links):
    text = rp.write_multi(peps, links)
    ctx.begin({'text': text, 'links': links})
    st.expect = (peps, links)
    try:
        a = pt.parse(text)
    except Exception as e:
        ctx.decided()
        ctx.violation('valid-string-rejected', {'text': text, 'exception': f'{type(e).__name__}: {e}'[:300]})
        return
    finally:
        st.expect = None
    for plus in (False, True):
        try:
            pt.serialize(a, plus)
            if plus:
                a.serialize(include_plus=True)
            else:
                a.serialize()
        except Exception as e:
            ctx.decided()
            ctx.violation('serialize-raises', {'text': text, 'include_plus': plus,
                                               'exception': f'{type(e).__name__}: {e}'[:300]})
    kinds = sorted({f for p in peps for f in p.features()})
    spell = sorted({k for p in peps for k in p.spelling_classes()})
    nontrivial = len([k for k in kinds if k not in ('mult', 'res-multi', 'interval-mod', 'interval-ambiguous',
                                                    'static-term', 'charge-neg')]) >= 2 or len(peps) >= 2
    ctx.sig((kinds, spell, len(peps), sorted(set(links))), nontrivial)
    ctx.sample({'text': text})


def run(ctx):
    st = State()
    pt = install(ctx, st)
    ctx.enable_disturb(pt, 0.02)     # other legitimate library calls interleaved between cases (vf.gen.disturb)
    cfg = gp.GenCfg(min_len=1, max_len=30, letters=list('ACDEFGHIKLMNPQRSTVWYBJOUXZ'))
    small = gp.GenCfg(min_len=1, max_len=6, letters=list('ACDEFGHIKLMNPQRSTVWYBJOUXZ'), p_res=0.4)
    for i in range(ctx.n(100000, 3000000)):
        peps, links = make_case(ctx.rng, small if i % 3 == 0 else cfg)
        run_case(ctx, st, pt, peps, links)
    ctx.extra['parse_oracle_decisions'] = st.parse_checked
    ctx.extra['serialize_decisive'] = st.ser_decisive
    ctx.extra['serialize_information_only'] = st.ser_info_only
    ctx.extra['names_excluded_as_unwritable'] = gp.vocab().excluded_names if ctx.shard == 0 else 0


def reproduce(kf_id):
    import peptacular as pt
    if kf_id == 'K1':
        a = pt.parse('PEPTIDE//ANOTHER')
        s = pt.serialize(a)
        try:
            b = pt.parse(s)
            return not hasattr(b, 'annotations') or dump(b) != dump(a)
        except Exception:
            return True
    return None


def replay(ctx, case):
    st = State()
    pt = install(ctx, st)
    text = case['text']
    a = pt.parse(text)
    print('parsed fields:', dump(a))
    for plus in (False, True):
        s = pt.serialize(a, plus)
        print(f'serialize(include_plus={plus}) -> {s!r}')
    print('expected: re-parse equal to the parsed annotation and re-serialisation identical')


SUITE_WORKLOAD = True


def install_generic(ctx):
    """monitors for the repository's own suite: round trip on every serialize of a parsed, unedited annotation"""
    install(ctx, State())
