"""vf - runtime-monitoring framework for the peptacular properties C01-C20.

Importing this package makes the offline third-party helpers (icontract,
jsonschema) importable from /verif/.deps, installing them from the local
wheelhouse when they are missing (fresh restore, `vp run` snapshot).
"""
import os
import subprocess
import sys

ROOT = os.path.dirname(os.path.dirname(os.path.abspath(__file__)))
DEPS = os.path.join(ROOT, '.deps')
WHEELS = '/opt/veriftools/wheels'


def ensure_deps() -> None:
    marker = os.path.join(DEPS, 'icontract', '__init__.py')
    marker2 = os.path.join(DEPS, 'jsonschema', '__init__.py')
    if not (os.path.exists(marker) and os.path.exists(marker2)):
        os.makedirs(DEPS, exist_ok=True)
        subprocess.run([sys.executable, '-m', 'pip', 'install', '--quiet', '--no-index', '--find-links', WHEELS,
                        '--target', DEPS, 'icontract', 'jsonschema'], check=True,
                       stdout=subprocess.DEVNULL, stderr=subprocess.DEVNULL)
    if DEPS not in sys.path:
        sys.path.insert(0, DEPS)


ensure_deps()
