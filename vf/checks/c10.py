"""C10 - a modification means the same thing however it is spelled."""
from vf.gen import pep as gp
from vf.ref import atoms, chem, obo
from vf.ref import glycan as rg

DECIDING = ['peptacular.mass_calc.mod_mass', 'peptacular.chem.chem_calc.mod_comp']
SHARDS = {'quick': 16, 'thorough': 16}
EXHAUSTIVE = {t: 'all 1522 Unimod, 1978 PSI-MOD, 1101 XLMOD (prefixed spellings) and 27 monosaccharide entries x all '
                 'documented spellings x {monoisotopic mass, average mass, composition}' for t in ('quick', 'thorough')}
RULE = ('every vocabulary entry (read by the independent OBO reader) through every documented spelling: bare name, '
        'prefixed name, prefixed accession, case variants of the prefix; observables mod_mass mono/average, mod_comp '
        'and, for writable names, mass/comp of a one-residue peptide through the parser; all spellings of one entry must '
        'give the same value (1e-5) or the same error class, and the accession spelling must give the tabulated mass; '
        'tabulated mono vs mass of tabulated composition (1e-3) for Unimod/monosaccharides; generic forms (prefixed '
        'signed numbers, Formula/Glycan/Obs, | alternatives, #tags, ^n multipliers) against the generator\'s own values. '
        'signature = (vocabulary, spelling form, observable, outcome class) and for generic forms (form, feature flags); '
        'non-trivial = everything except the bare accession spelling')
ASSUMPTIONS = ['bare spellings are claimed for Unimod and PSI-MOD names only; XLMOD through prefixed spellings only',
               'a bare name that exists in both Unimod and PSI-MOD (2 names) is not a spelling of one entry and is skipped',
               'names that cannot be written inside square brackets are exercised through mod_mass/mod_comp only']
LEVEL_TEXT = ('The vocabularies are enumerated completely; every spelling of every entry is resolved under monitors on '
              'mod_mass/mod_comp and compared with the other spellings and with the independently read table.')
TECHNIQUE = 'runtime monitoring: outcome monitors on mod_mass/mod_comp/mass, exhaustive enumeration of vocabulary spellings'

UNI_PREF = ['UNIMOD:', 'Unimod:', 'unimod:', 'U:', 'u:']
PSI_PREF = ['MOD:', 'mod:', 'M:', 'm:', 'PSI-MOD:', 'psi-mod:']
XL_PREF = ['XLMOD:', 'xlmod:', 'X:', 'x:']


class State:
    def __init__(self):
        self.last = {}      # function -> outcome of the current depth-0 call


def install(ctx, st: State):
    import peptacular as pt

    def mk(name):
        def post(call):
            if call.depth == 0:
                st.last[name] = ('ok', call.result)

        def on_raise(call):
            if call.depth == 0:
                st.last[name] = ('raise', type(call.exc).__name__)
        return post, on_raise

    for dotted, short in (('peptacular.mass_calc.mod_mass', 'mod_mass'), ('peptacular.chem.chem_calc.mod_comp', 'mod_comp'),
                          ('peptacular.mass_calc.mass', 'mass'), ('peptacular.mass_calc.comp', 'comp')):
        p, r = mk(short)
        ctx.eng.attach(dotted, post=p, on_raise=r)
    return pt


def observe(st, pt, fn, *a, **k):
    st.last.pop(fn, None)
    try:
        getattr(pt, fn)(*a, **k)
    except Exception:
        pass
    return st.last.get(fn)


def same(o1, o2, tol=1e-5):
    if o1 is None or o2 is None:
        return False
    if o1[0] != o2[0]:
        return False
    if o1[0] == 'raise':
        return o1[1] == o2[1]
    a, b = o1[1], o2[1]
    if isinstance(a, dict) or isinstance(b, dict):
        return {k: v for k, v in a.items() if v != 0} == {k: v for k, v in b.items() if v != 0}
    return abs(a - b) <= tol


def check_entry(ctx, st, pt, vocab_name, e, spellings, reference, table_ok=True):
    """spellings: [(form label, text)]; reference: the prefixed-accession text."""
    for obs_name, fn, kw in (('mono', 'mod_mass', {'monoisotopic': True}), ('avg', 'mod_mass', {'monoisotopic': False}),
                             ('comp', 'mod_comp', {})):
        ref = observe(st, pt, fn, reference, **kw)
        if ref is None:
            ctx.inconclusive_case('monitor not reached')
            continue
        # the accession spelling gives the tabulated value
        if obs_name == 'mono' and e.mono is not None:
            ctx.decided()
            if not (ref[0] == 'ok' and abs(ref[1] - e.mono) <= 1e-5):
                ctx.violation('accession-does-not-give-tabulated-mass',
                              {'vocabulary': vocab_name, 'entry': e.id, 'name': e.name, 'spelling': reference,
                               'tabulated': e.mono, 'observed': ref})
        if obs_name == 'comp' and e.comp is not None and ref[0] == 'ok':
            ctx.decided()
            if {k: v for k, v in ref[1].items() if v != 0} != e.comp:
                ctx.violation('accession-does-not-give-tabulated-composition',
                              {'vocabulary': vocab_name, 'entry': e.id, 'spelling': reference, 'tabulated': e.comp,
                               'observed': ref[1]})
        ctx.sig((vocab_name, 'accession', obs_name, ref[0] if ref[0] == 'ok' else ref[1]), False)
        # a wrong-case variant of the first spelling is asked for before and after the documented spellings: whatever
        # the library answers for it (vocabularies differ in case sensitivity), it answers the same both times, and it
        # does not change what the documented spellings resolve to
        wrong = None
        if spellings and obs_name != 'avg':
            t0 = spellings[0][1]
            wrong = t0.lower() if t0.lower() != t0 else t0.upper()
            if wrong == t0:
                wrong = None
        w1 = observe(st, pt, fn, wrong, **kw) if wrong else None
        for form, text in spellings:
            got = observe(st, pt, fn, text, **kw)
            ctx.decided()
            if not same(ref, got):
                ctx.violation('spelling-resolves-differently',
                              {'vocabulary': vocab_name, 'entry': e.id, 'name': e.name, 'form': form, 'spelling': text,
                               'observable': obs_name, 'reference_spelling': reference, 'reference': ref,
                               'observed': got})
            ctx.sig((vocab_name, form, obs_name, ref[0] if ref[0] == 'ok' else ref[1]), True)
        if wrong:
            w2 = observe(st, pt, fn, wrong, **kw)
            ctx.decided()
            if not same(w1, w2):
                ctx.violation('same-text-resolves-differently-the-second-time',
                              {'vocabulary': vocab_name, 'entry': e.id, 'text': wrong, 'observable': obs_name,
                               'first': w1, 'after_the_documented_spellings': w2})
    # through the parser, for names that can be written in brackets
    for form, text in spellings[:3]:
        if not gp.writable(text):
            continue
        ref = observe(st, pt, 'mod_mass', reference)
        got = observe(st, pt, 'mass', f'G[{text}]')
        ctx.decided()
        if ref is not None and got is not None and ref[0] == 'ok':
            g = chem.residue_mass('G') + atoms.comp_mass(chem.WATER)
            if not (got[0] == 'ok' and abs(got[1] - g - ref[1]) <= 1e-5):
                ctx.violation('mass-through-parser-differs', {'vocabulary': vocab_name, 'entry': e.id,
                                                              'peptide': f'G[{text}]', 'mod_mass': ref[1],
                                                              'observed': got})
        ctx.sig((vocab_name, form, 'through-parser'), True)


def table_consistency(ctx, vocab_name, e):
    if e.mono is None or e.comp is None:
        return
    ctx.decided()
    m = atoms.comp_mass(e.comp, True)
    if abs(m - e.mono) > 1e-3:
        ctx.violation('tabulated-mass-differs-from-tabulated-composition',
                      {'vocabulary': vocab_name, 'entry': e.id, 'name': e.name, 'tabulated': e.mono,
                       'mass_of_composition': m})


def generic_forms(ctx, st, pt):
    rng = ctx.rng
    from peptacular.proforma.proforma_dataclasses import Mod
    for _ in range(ctx.n(150000, 1000000)):
        r = rng.random()
        if r < 0.25:
            # prefixed signed number = mass shift
            pre = rng.choice(['U:', 'UNIMOD:', 'M:', 'MOD:', 'X:', 'XLMOD:', 'R:', 'RESID:', 'G:', 'GNO:', 'Obs:', 'obs:',
                              'PSI-MOD:', 'psi-mod:', 'Psi-Mod:', 'u:', 'unimod:', 'Unimod:', 'm:', 'mod:', 'x:', 'xlmod:',
                              'r:', 'resid:', 'g:', 'gno:'])
            v = round(rng.uniform(-500, 500), rng.choice([0, 1, 3, 6])) + 0.0
            if v == 0:
                v = 0.0
            text = f'{pre}{"+" if v >= 0 else ""}{v!r}'
            ctx.begin({'form': 'prefixed-number', 'text': text})
            got = observe(st, pt, 'mod_mass', text)
            ctx.decided()
            if not (got and got[0] == 'ok' and abs(got[1] - v) <= 1e-9):
                ctx.violation('prefixed-number-not-a-mass-shift', {'text': text, 'expected': v, 'observed': got})
            ctx.sig(('prefixed-number', pre.lower(), v < 0), True)
            if rng.random() < 0.3:
                # the same spelling on a peptide, through the direct route, the composition route (isotope label) and
                # the composition calculator's residual
                lab = rng.choice(['<13C>', '<15N>'])
                try:
                    with ctx.eng.suspend():
                        d1 = pt.mass(f'PEPT[{text}]IDE') - pt.mass('PEPTIDE')
                        d2 = pt.mass(f'{lab}PEPT[{text}]IDE') - pt.mass(f'{lab}PEPTIDE')
                        d3 = pt.comp_mass(f'[{text}]-PEPTIDE')[1]
                    ok = all(abs(d - v) <= 1e-6 for d in (d1, d2, d3))
                    obs3 = (d1, d2, d3)
                except Exception as ex:
                    ok, obs3 = False, f'{type(ex).__name__}: {ex}'[:200]
                ctx.decided()
                if not ok:
                    ctx.violation('prefixed-number-not-a-mass-shift-on-a-peptide',
                                  {'text': text, 'expected': v, 'label': lab,
                                   'observed(direct, labelled, composition residual)': obs3})
                ctx.sig(('prefixed-number-peptide', pre.lower()), True)
            continue
        if r < 0.6:
            # formula with isotopes, negative and fractional counts
            parts, comp = [], {}
            for _k in range(rng.randint(1, 5)):
                frac = rng.random() < 0.2
                cnt = round(rng.uniform(0.1, 30), rng.choice([1, 2])) if frac else rng.randint(1, 30)
                if rng.random() < 0.15:
                    cnt = -cnt
                if rng.random() < 0.3:
                    sym = rng.choice(gp.FORMULA_ISOTOPES)
                    parts.append(f'[{sym}{cnt}]')
                else:
                    sym = rng.choice(gp.FORMULA_ELEMENTS)
                    parts.append(f'{sym}{cnt}')
                comp[sym] = comp.get(sym, 0) + cnt
            base = 'Formula:' + ''.join(parts)
            mono, avg = atoms.comp_mass(comp, True), atoms.comp_mass(comp, False)
            feats = ['formula', 'iso' if '[' in base else '', 'neg' if any(v < 0 for v in comp.values()) else '',
                     'frac' if any(isinstance(v, float) for v in comp.values()) else '']
            want_comp = {k: v for k, v in comp.items() if v != 0}
        elif r < 0.8:
            m = gp.m_glycan(rng)
            base, mono, avg, want_comp = m.text, m.mono, m.avg, m.comp
            feats = ['glycan']
        else:
            v = round(rng.uniform(-200, 900), rng.choice([1, 3, 5]))
            if v == 0:
                v = 0.0     # never write '+-0.0'
            base, mono, avg, want_comp = f'Obs:{"+" if v >= 0 else ""}{v!r}', v, v, None
            feats = ['obs']
        text, mult = base, 1
        if rng.random() < 0.3:
            text += rng.choice(['#g1', '#XL2(0.5)', '#s1(0.99)'])
            feats.append('tag')
        if rng.random() < 0.3:
            if rng.random() < 0.5:
                text = text + '|INFO:free text'
            else:
                text = 'INFO:first|' + text
            feats.append('alt')
        if rng.random() < 0.3:
            mult = rng.randint(2, 5)
            feats.append('mult')
        arg = Mod(text, mult) if (mult > 1 or rng.random() < 0.3) else text
        ctx.begin({'form': 'generic', 'text': text, 'mult': mult})
        n_atoms = sum(abs(x) for x in want_comp.values()) if want_comp else 1
        for mode, ref in ((True, mono), (False, avg)):
            got = observe(st, pt, 'mod_mass', arg, mode)
            ctx.decided()
            slack = 2e-3 * mult if (not mode and 'glycan' in feats) else 0.0   # tabulated vs composition average
            if not (got and got[0] == 'ok' and abs(got[1] - ref * mult) <= 1e-5 + 1e-9 * n_atoms * mult + slack):
                ctx.violation('generic-form-mass-differs', {'text': text, 'mult': mult, 'monoisotopic': mode,
                                                            'expected': ref * mult, 'observed': got})
        if want_comp is not None:
            got = observe(st, pt, 'mod_comp', arg)
            ctx.decided()
            exp = {k: v * mult for k, v in want_comp.items()}
            ok = got and got[0] == 'ok' and set(k for k, v in got[1].items() if v != 0) == set(exp) and \
                all(abs(got[1][k] - exp[k]) <= 1e-9 * max(1, abs(exp[k])) for k in exp)
            if not ok:
                ctx.violation('generic-form-composition-differs', {'text': text, 'mult': mult, 'expected': exp,
                                                                   'observed': got})
        ctx.sig(('generic', [f for f in feats if f]), True)
        ctx.sample({'text': text, 'mult': mult})


CASE_PAIRS = [('CS2', {'C': 1, 'S': 2}, 'Cs2', {'Cs': 2}), ('CO', {'C': 1, 'O': 1}, 'Co', {'Co': 1}),
              ('NO2', {'N': 1, 'O': 2}, 'No2', {'No': 2}), ('HF', {'H': 1, 'F': 1}, 'Hf', {'Hf': 1}),
              ('SI', {'S': 1, 'I': 1}, 'Si', {'Si': 1}), ('OS', {'O': 1, 'S': 1}, 'Os', {'Os': 1}),
              ('CU', {'C': 1, 'U': 1}, 'Cu', {'Cu': 1}), ('NI3', {'N': 1, 'I': 3}, 'Ni3', {'Ni': 3}),
              ('SN', {'S': 1, 'N': 1}, 'Sn', {'Sn': 1}), ('PB', {'P': 1, 'B': 1}, 'Pb', {'Pb': 1}),
              ('HO', {'H': 1, 'O': 1}, 'Ho', {'Ho': 1}), ('NB', {'N': 1, 'B': 1}, 'Nb', {'Nb': 1}),
              ('C2H4SI', {'C': 2, 'H': 4, 'S': 1, 'I': 1}, 'C2H4Si', {'C': 2, 'H': 4, 'Si': 1})]


def case_pairs(ctx, st, pt):
    """Formula texts that differ only in letter case spell different compositions (CS2 is carbon disulfide, Cs2 two
    caesium atoms); asked for one after the other, in both orders, through both prefix cases.  The composition must
    have exactly the symbols written; the mass is compared with the library's own chem_mass of that dictionary."""
    rng = ctx.rng
    for _ in range(3 if ctx.quick() else 40):
        a_txt, a_comp, b_txt, b_comp = rng.choice(CASE_PAIRS)
        order = [(a_txt, a_comp), (b_txt, b_comp)]
        if rng.random() < 0.5:
            order.reverse()
        order.append(order[0])
        for txt, comp in order:
            pre = rng.choice(['Formula:', 'formula:', 'FORMULA:'])
            text = pre + txt
            ctx.begin({'form': 'generic', 'text': text, 'mult': 1})
            try:
                with ctx.eng.suspend():
                    want = pt.chem_mass(dict(comp))
            except Exception:
                continue        # element not in the bundled table
            gc = observe(st, pt, 'mod_comp', text)
            gm = observe(st, pt, 'mod_mass', text)
            ctx.decided(2)
            if not (gc and gc[0] == 'ok' and {k: v for k, v in gc[1].items() if v != 0} == comp):
                ctx.violation('generic-form-composition-differs', {'text': text, 'mult': 1, 'expected': comp, 'observed': gc})
            if not (gm and gm[0] == 'ok' and abs(gm[1] - want) <= 1e-5):
                ctx.violation('generic-form-mass-differs', {'text': text, 'mult': 1, 'monoisotopic': True,
                                                            'expected': want, 'observed': gm})
            ctx.sig(('generic', ['formula', 'case-pair', pre]), True)


def run(ctx):
    st = State()
    pt = install(ctx, st)
    ctx.enable_disturb(pt, 0.02)     # other legitimate library calls interleaved between cases (vf.gen.disturb)
    k = 0
    psi_names = {e.name for e in obo.psimod()} | {e.id for e in obo.psimod()}
    uni_names = {e.name for e in obo.unimod()} | {e.id for e in obo.unimod()}
    shared = 0
    for e in obo.unimod():
        k += 1
        if not ctx.mine(k):
            continue
        ctx.begin({'vocabulary': 'unimod', 'entry': e.id, 'name': e.name})
        table_consistency(ctx, 'unimod', e)
        # a bare name that also names a PSI-MOD entry is not a spelling of this entry alone (2 such names)
        bare = [('bare-name', e.name)] if e.name not in psi_names else []
        shared += 0 if bare else 1
        sp = bare + [(f'{p}name', p + e.name) for p in UNI_PREF] + \
             [(f'{p}acc', p + e.id) for p in UNI_PREF[1:]]
        check_entry(ctx, st, pt, 'unimod' + ('-colon-name' if ':' in e.name else ''), e, sp, 'UNIMOD:' + e.id)
        if k % 97 == 0:
            ctx.sample({'vocabulary': 'unimod', 'entry': e.id, 'spellings': [t for _f, t in sp]})
    for e in obo.psimod():
        k += 1
        if not ctx.mine(k):
            continue
        ctx.begin({'vocabulary': 'psi-mod', 'entry': e.id, 'name': e.name})
        bare = [('bare-name', e.name)] if e.name not in uni_names else []
        sp = bare + [(f'{p}name', p + e.name) for p in PSI_PREF] + \
             [(f'{p}acc', p + e.id) for p in PSI_PREF[1:]]
        check_entry(ctx, st, pt, 'psi-mod' + ('-colon-name' if ':' in e.name else ''), e, sp, 'MOD:' + e.id)
    for e in obo.xlmod():
        k += 1
        if not ctx.mine(k):
            continue
        ctx.begin({'vocabulary': 'xlmod', 'entry': e.id, 'name': e.name})
        sp = [(f'{p}name', p + e.name) for p in XL_PREF] + [(f'{p}acc', p + e.id) for p in XL_PREF[1:]]
        check_entry(ctx, st, pt, 'xlmod' + ('-colon-name' if ':' in e.name else ''), e, sp, 'XLMOD:' + e.id)
    for e in obo.monosaccharides():
        k += 1
        if not ctx.mine(k):
            continue
        ctx.begin({'vocabulary': 'monosaccharide', 'entry': e.id, 'name': e.name})
        table_consistency(ctx, 'monosaccharide', e)
        names = [e.name] + list(e.synonyms)
        sp = []
        for nm in names:
            sp += [('Glycan:name', 'Glycan:' + nm), ('glycan:name', 'glycan:' + nm), ('Glycan:name1', f'Glycan:{nm}1')]
        sp.append(('Glycan:id', 'Glycan:' + e.id))
        check_entry(ctx, st, pt, 'monosaccharide', e, sp, 'Glycan:' + e.name)
    generic_forms(ctx, st, pt)
    case_pairs(ctx, st, pt)
    ctx.extra['bare_names_shared_between_vocabularies_skipped'] = shared


def replay(ctx, case):
    st = State()
    pt = install(ctx, st)
    if 'text' in case:
        for fn in ('mod_mass', 'mod_comp'):
            print(fn, case['text'], '->', observe(st, pt, fn, case['text']))
        return
    for voc, ents in (('unimod', obo.unimod()), ('psi-mod', obo.psimod()), ('xlmod', obo.xlmod()),
                      ('monosaccharide', obo.monosaccharides())):
        if voc == case['vocabulary']:
            e = [x for x in ents if x.id == case['entry']][0]
            pre = {'unimod': UNI_PREF, 'psi-mod': PSI_PREF, 'xlmod': XL_PREF}.get(voc, ['Glycan:'])
            sp = [('bare-name', e.name)] + [(p + 'name', p + e.name) for p in pre] + [(p + 'acc', p + e.id) for p in pre]
            check_entry(ctx, st, pt, voc, e, sp, pre[0] + e.id)
