"""Process-state probes: the caller's random generator and the four vocabulary objects."""
import hashlib
import random


def rng_fp() -> str:
    return hashlib.sha1(repr(random.getstate()).encode()).hexdigest()[:16]


def vocab_fp():
    from peptacular.mods import mod_db_setup as s
    out = []
    for db in (s.UNIMOD_DB, s.PSI_MOD_DB, s.XLMOD_DB, s.MONOSACCHARIDES_DB):
        ids = db.id_map
        out.append((len(ids), len(db.name_map), hash(frozenset(ids)), hash(frozenset(db.name_map)),
                    round(sum((e.mono_mass or 0.0) for e in ids.values()), 6),
                    round(sum((e.avg_mass or 0.0) for e in ids.values()), 6),
                    hash(tuple((e.composition or '') for e in ids.values()))))
    return tuple(out)


def state_fp():
    return (rng_fp(), vocab_fp())


_SAMPLE = None


def vocab_cheap():
    """Cheap per-call fingerprint: sizes of every map plus the fields of a fixed sample of entries."""
    global _SAMPLE
    from peptacular.mods import mod_db_setup as s
    dbs = (s.UNIMOD_DB, s.PSI_MOD_DB, s.XLMOD_DB, s.MONOSACCHARIDES_DB)
    if _SAMPLE is None:
        _SAMPLE = [list(db.id_map)[::max(1, len(db.id_map) // 12)] for db in dbs]
    out = []
    for db, keys in zip(dbs, _SAMPLE):
        out.append((len(db.id_map), len(db.name_map), len(db.synonym_map), len(db.names_sorted), len(db.entries),
                    tuple((k, getattr(db.id_map.get(k), 'mono_mass', None), getattr(db.id_map.get(k), 'avg_mass', None),
                           getattr(db.id_map.get(k), 'composition', None), getattr(db.id_map.get(k), 'name', None))
                          for k in keys)))
    return tuple(out)


def cheap_fp():
    return (random.getstate()[1][:8], random.getstate()[1][-1], vocab_cheap())
