"""C12 - global modification rules equal the explicit per-residue form; isotope labels shift by atom counts."""
from vf.gen import pep as gp
from vf.ref import atoms, chem
from vf.ref import pep as rp

DECIDING = ['peptacular.mass_calc.mass', 'peptacular.mass_calc.comp_mass',
            'peptacular.sequence.sequence_funcs.condense_static_mods']
RULE = ('peptides of length 1..20 with 1..3 static rules (1..3 targets among residues/N-Term/C-Term, 1..2 numeric/named/'
        'formula modifications), pre-modified residues, labels from {13C,15N,18O,17O,34S,D,T,2H} and pairs; the same '
        'monitored call is executed on the rule form and on the explicit form built by the generator-side model: mass '
        '(ion types p,b,y,c,z, both modes), comp_mass, fragment, count_residues; condense_static_mods must parse to the '
        'explicit form; label shift of the neutral mass = atoms of the element in residues and termini (plus modification '
        'atoms iff use_isotope_on_mods) x isotope mass difference. signature = (clause, target kinds, #rules, '
        'modification kinds, labels, ion type, mode); non-trivial = at least one rule target occurs in the peptide, or a label')
ASSUMPTIONS = ['for fragment ion types the label clause counts the ion-offset atoms as termini and is evaluated for '
               'non-hydrogen labels at charge 1 (whether a charge-carrying proton is deuterated is not stated)']
LEVEL_TEXT = ('Every monitored call on a rule form is paired with the same call on the explicit form and compared; '
              'label shifts are compared with atom counts from independent residue formulas; held on the executions observed.')
TECHNIQUE = 'runtime monitoring: relational post-conditions pairing executions on rule form and explicit form'

LETTERS = list('ACDEFGHIKLMNPQRSTVWY')
LABELS = ['13C', '15N', '18O', '17O', '34S', 'D', 'T', '2H']
ION_TYPES = ['p', 'b', 'y', 'c', 'z']


class State:
    def __init__(self):
        self.last = {}


def install(ctx, st: State):
    import peptacular as pt

    def mk(short):
        def post(call):
            if call.depth == 0:
                st.last[short] = ('ok', call.result)

        def on_raise(call):
            if call.depth == 0:
                st.last[short] = ('raise', type(call.exc).__name__)
        return post, on_raise

    for dotted, short in (('peptacular.mass_calc.mass', 'mass'), ('peptacular.mass_calc.comp_mass', 'comp_mass'),
                          ('peptacular.fragmentation.fragment', 'fragment'),
                          ('peptacular.sequence.sequence_funcs.count_residues', 'count_residues'),
                          ('peptacular.sequence.sequence_funcs.condense_static_mods', 'condense_static_mods')):
        p, r = mk(short)
        ctx.eng.attach(dotted, post=p, on_raise=r)
    return pt


def observe(st, pt, fn, *a, **k):
    st.last.pop(fn, None)
    try:
        getattr(pt, fn)(*a, **k)
    except Exception:
        pass
    return st.last.get(fn)


def term_rule_mass(p, mono):
    return sum(m.mass(mono) for r in p.static for t in r.targets if t in ('N-Term', 'C-Term') for m in r.mods)


def static_clauses(ctx, st, pt, p):
    rng = ctx.rng
    if p.isotope and any(m.named and m.comp is None for m in p.all_mods()):
        # a vocabulary entry with a mass but no composition cannot be weighed under an isotope label (both forms raise):
        # not a statement about rule form vs explicit form
        ctx.note('skipped_named_modification_without_composition_under_a_label')
        return
    q = rp.explicit_static(p)
    t_rule, t_expl = rp.write(p), rp.write(q)
    ctx.begin({'pep': rp.to_json(p), 'rule_form': t_rule, 'explicit_form': t_expl, 'clause': 'static'})
    kinds = sorted({('term' if t in ('N-Term', 'C-Term') else 'residue') for r in p.static for t in r.targets})
    hit = any((t in ('N-Term', 'C-Term') or t in p.seq) for r in p.static for t in r.targets)
    # condensation produces exactly the explicit form
    got = observe(st, pt, 'condense_static_mods', t_rule)
    ctx.decided()
    if not got or got[0] != 'ok':
        ctx.violation('condense_static_mods-raises', {'rule_form': t_rule, 'observed': got})
    else:
        try:
            d = rp.diff_fields(rp.expected_fields(q), rp.observed_fields(pt.parse(got[1])))
        except Exception as ex:
            d = {'exception': type(ex).__name__}
        if d:
            ctx.violation('condensed-form-differs-from-explicit-form', {'rule_form': t_rule, 'condensed': got[1],
                                                                        'diff': d})
    # mass
    for _ in range(3):
        ion = rng.choice(ION_TYPES)
        mono = rng.random() < 0.6
        kw = {'ion_type': ion, 'monoisotopic': mono, 'charge': rng.choice([0, 1, 2]) if ion == 'p' else rng.choice([1, 2])}
        if p.isotope and rng.random() < 0.5:
            kw['use_isotope_on_mods'] = True
        a = observe(st, pt, 'mass', t_rule, **kw)
        if len(p.static) >= 2 and rng.random() < 0.25:
            # the same peptide as an object that was built step by step: first rule only, a mass asked for, the other
            # rules appended afterwards (state kept on the object must follow the edit)
            try:
                first = p.copy()
                first.static = p.static[:1]
                obj = pt.parse(rp.write(first))
                with ctx.eng.suspend():
                    pt.mass(obj, **kw)
                    pt.fragment(obj, 'b', 1) if not (p.unknown or p.intervals) else None
                    obj.add_static_mods([f'{r.text()}' for r in p.static[1:]], append=True)
                a2 = observe(st, pt, 'mass', obj, **kw)
                ctx.decided()
                if a is not None and a2 is not None and (a[0] != a2[0] or (a[0] == 'ok' and abs(a[1] - a2[1]) > 1e-6)):
                    ctx.violation('mass-of-incrementally-built-annotation-differs',
                                  {'rule_form': t_rule, 'kwargs': kw, 'from_text': a, 'from_object': a2})
            except Exception as ex:
                ctx.note('incremental_build_raises:' + type(ex).__name__)
        if kw.get('use_isotope_on_mods') and rng.random() < 0.3:
            kw = dict(kw, use_isotope_on_mods=1)     # a flag is a flag
        b = observe(st, pt, 'mass', t_expl, **kw)
        ctx.decided()
        if a is None or b is None:
            ctx.inconclusive_case('mass monitor not reached')
        elif a[0] != b[0] or (a[0] == 'ok' and abs(a[1] - b[1]) > 1e-6) or (a[0] == 'raise' and a[1] != b[1]):
            ctx.violation('mass-of-rule-form-differs-from-explicit-form', {'rule_form': t_rule, 'explicit_form': t_expl,
                                                                           'kwargs': kw, 'rule': a, 'explicit': b})
        ctx.sig(('static-mass', kinds, len(p.static), p.spelling_classes(), sorted(p.isotope), ion,
                 'mono' if mono else 'avg'), hit)
    # composition + residual
    ion = rng.choice(ION_TYPES)
    kw = {'ion_type': ion, 'charge': 1}
    a = observe(st, pt, 'comp_mass', t_rule, **kw)
    b = observe(st, pt, 'comp_mass', t_expl, **kw)
    ctx.decided()
    if a is None or b is None:
        ctx.inconclusive_case('comp_mass monitor not reached')
    else:
        same = a[0] == b[0] and (a[0] == 'raise' and a[1] == b[1] or a[0] == 'ok' and
                                 {k: v for k, v in a[1][0].items() if v} == {k: v for k, v in b[1][0].items() if v}
                                 and abs(a[1][1] - b[1][1]) <= 1e-6)
        if not same:
            ctx.violation('composition-of-rule-form-differs-from-explicit-form',
                          {'rule_form': t_rule, 'explicit_form': t_expl, 'kwargs': kw, 'rule': a, 'explicit': b})
    ctx.sig(('static-comp', kinds, len(p.static), ion), hit)
    # residue counts
    a = observe(st, pt, 'count_residues', t_rule)
    b = observe(st, pt, 'count_residues', t_expl)
    ctx.decided()
    if a is None or b is None or a[0] != b[0] or (a[0] == 'ok' and dict(a[1]) != dict(b[1])):
        ctx.violation('count_residues-of-rule-form-differs', {'rule_form': t_rule, 'explicit_form': t_expl,
                                                              'rule': repr(a)[:300], 'explicit': repr(b)[:300]})
    ctx.sig(('static-count', kinds, len(p.static)), hit)
    # fragments
    if not p.unknown and not p.intervals:
        mono = rng.random() < 0.7
        types = rng.sample(['b', 'y', 'a', 'c', 'z', 'by', 'i'], 2)
        a = observe(st, pt, 'fragment', t_rule, types, 1, monoisotopic=mono)
        b = observe(st, pt, 'fragment', t_expl, types, 1, monoisotopic=mono)
        ctx.decided()
        if a is None or b is None or a[0] != 'ok' or b[0] != 'ok' or len(a[1]) != len(b[1]):
            ctx.violation('fragments-of-rule-form-differ', {'rule_form': t_rule, 'explicit_form': t_expl,
                                                            'rule': repr(a)[:200], 'explicit': repr(b)[:200]})
        else:
            trm = term_rule_mass(p, mono)
            named_term = [m for r in p.static for t_ in r.targets if t_ in ('N-Term', 'C-Term') for m in r.mods
                          if m.named]
            n = len(p.seq)
            lib_rule = {}

            def lib_rule_mass(r):
                # what the library itself adds for one copy of this rule's modifications on a terminus, in this mode and
                # under these labels (vocabulary rows with metals differ from their compositions in average mode)
                k_ = id(r)
                if k_ not in lib_rule:
                    lab = ''.join(f'<{x}>' for x in p.isotope)
                    with ctx.eng.suspend():
                        try:
                            lib_rule[k_] = (pt.mass(lab + ''.join(m.written() for m in r.mods) + '-G', monoisotopic=mono)
                                            - pt.mass(lab + 'G', monoisotopic=mono))
                        except Exception:
                            lib_rule[k_] = None
                return lib_rule[k_]
            for fa, fb in zip(a[1], b[1]):
                key = (fa.ion_type, fa.start, fa.end, fa.charge)
                if key != (fb.ion_type, fb.start, fb.end, fb.charge):
                    ctx.violation('fragments-of-rule-form-differ', {'rule_form': t_rule, 'ion': key})
                    break
                ctx.decided()
                if abs(fa.mass - fb.mass) > 1e-6:
                    # K3: the rule form counts terminal rules once per residue of the fragment; the explicit form
                    # carries them on the terminal residues only
                    L = fa.end - fa.start
                    expl_has = 0.0
                    for r in p.static:
                        for t_ in r.targets:
                            if (t_ == 'N-Term' and fa.start == 0) or (t_ == 'C-Term' and fa.end == n):
                                expl_has += sum(m.mass(mono) for m in r.mods)
                    emu = L * trm - expl_has
                    slack = L * sum((1e-4 if mono else 1e-3 + 5e-6 * abs(m.avg or 0)) for m in named_term)
                    kf = 'K3' if trm != 0 and abs((fa.mass - fb.mass) - emu) <= 1e-5 + slack else None
                    if kf is None and trm != 0:
                        emu2, ok2 = 0.0, True
                        for r in p.static:
                            for t_ in r.targets:
                                if t_ in ('N-Term', 'C-Term'):
                                    lm = lib_rule_mass(r)
                                    if lm is None:
                                        ok2 = False
                                        break
                                    has = (t_ == 'N-Term' and fa.start == 0) or (t_ == 'C-Term' and fa.end == n)
                                    emu2 += (L - (1 if has else 0)) * lm
                        if ok2 and abs((fa.mass - fb.mass) - emu2) <= 1e-5 + 2e-6 * L:
                            kf = 'K3'
                    ctx.violation('fragment-mass-of-rule-form-differs', {'rule_form': t_rule, 'explicit_form': t_expl,
                                                                         'ion': key, 'rule': fa.mass, 'explicit': fb.mass,
                                                                         'monoisotopic': mono}, kf=kf)
                    if kf is None:
                        break
        ctx.sig(('static-fragment', kinds, len(p.static), types), hit)
    ctx.sample({'rule_form': t_rule, 'explicit_form': t_expl})


def label_clauses(ctx, st, pt, p):
    rng = ctx.rng
    labels = list(p.isotope)
    unl = p.copy()
    unl.isotope = []
    t_lab, t_unl = rp.write(p), rp.write(unl)
    ctx.begin({'pep': rp.to_json(p), 'labelled': t_lab, 'unlabelled': t_unl, 'clause': 'label'})
    for ion in ('p', rng.choice(['b', 'y', 'c', 'z'])):
        for mono in (True, False):
            on_mods = rng.random() < 0.5
            if not mono and any((not m.avg_consistent) or (m.named and not (m.comp is not None and set(
                    atoms.base_element(x) for x in m.comp) <= {'C', 'H', 'N', 'O', 'P', 'S'})) for m in p.all_mods()):
                continue   # average mode: vocabulary rows made of C,H,N,O,P,S whose tabulated average agrees with
                #            their composition (as in C03: metals use other standard weights upstream)
            if ion == 'p':
                charge = 0
            else:
                charge = 1
                if any(rp.LABEL_ELEMENT.get(l, atoms.base_element(l)) == 'H' for l in labels):
                    continue
            kw = {'ion_type': ion, 'monoisotopic': mono, 'charge': charge}
            a = observe(st, pt, 'mass', t_lab, use_isotope_on_mods=on_mods, **kw)
            b = observe(st, pt, 'mass', t_unl, **kw)
            ctx.decided()
            if a is None or b is None:
                ctx.inconclusive_case('mass monitor not reached')
                continue
            if a[0] != 'ok' or b[0] != 'ok':
                ctx.violation('label-mass-raises', {'labelled': t_lab, 'kwargs': kw, 'labelled_outcome': a,
                                                    'unlabelled_outcome': b})
                continue
            backbone = chem.add(chem.residues_comp(p.seq), chem.ion_offset(ion))
            counts = dict(backbone)
            if on_mods:
                for m in rp.placed_mods(p, ion):
                    if m.comp is not None:
                        counts = chem.add(counts, m.comp, m.mult)
            shift = 0.0
            lm = rp.label_map(labels)
            for el, lab in lm.items():
                nat = atoms.mono(el) if mono else atoms.average(el)
                shift += counts.get(el, 0) * (atoms.mono(lab) - nat)
            # vocabulary masses are tabulated; the label path uses their compositions
            # vocabulary masses are tabulated; the label path uses their compositions instead: per named copy the
            # statement's own table tolerance (C03: 1e-4 mono, 1e-3 + 5 ppm average)
            tol = 1e-5 + sum(m.mult * (1e-4 if mono else 1e-3 + 5e-6 * abs(m.avg or 0.0))
                             for m in rp.placed_mods(p, ion) if (m.named or m.kind.startswith('glycan')))
            if abs((a[1] - b[1]) - shift) > tol:
                ctx.violation('label-shift-differs-from-atom-count',
                              {'labelled': t_lab, 'kwargs': kw, 'use_isotope_on_mods': on_mods,
                               'observed_shift': a[1] - b[1], 'expected_shift': shift,
                               'atoms_counted': {el: counts.get(el, 0) for el in lm}})
            ctx.sig(('label', sorted(labels), ion, 'mono' if mono else 'avg', on_mods,
                     any(counts.get(el, 0) == 0 for el in lm)), True)
    ctx.sample({'labelled': t_lab})


def run(ctx):
    st = State()
    pt = install(ctx, st)
    ctx.enable_disturb(pt, 0.03)     # other legitimate library calls interleaved between cases (vf.gen.disturb)
    w = {'int': 2, 'float': 2, 'formula': 3, 'unimod-name': 3, 'unimod-acc': 1}
    # rules also draw PSI-MOD names (long descriptive names, some containing words the notation uses: 'N-term', ',')
    ws = dict(w, **{'psimod-name': 1})
    cfg_s = gp.GenCfg(min_len=1, max_len=20, letters=LETTERS, weights=w, static_weights=ws, p_static=1.0,
                      p_static_term=0.45, max_static_rules=3, p_isotope=0.2, labels=LABELS, p_interval=0.1,
                      p_unknown=0.1, p_charge=0.0, p_labile=0.15, p_tag=0.0, p_alt=0.0, p_mult=0.05, p_res=0.25)
    cfg_l = gp.GenCfg(min_len=1, max_len=20, letters=LETTERS, weights={'int': 1, 'float': 2, 'formula': 3,
                                                                        'unimod-name': 3, 'glycan': 1},
                      p_static=0.2, p_isotope=1.0, labels=LABELS, p_interval=0.1, p_unknown=0.1, p_charge=0.0,
                      p_labile=0.15, p_tag=0.0, p_alt=0.0, p_mult=0.1, p_res=0.3)
    for i in range(ctx.n(20000, 500000)):
        if i % 2 == 0:
            p = gp.gen_pep(ctx.rng, cfg_s)
            if p.static:
                static_clauses(ctx, st, pt, p)
        else:
            p = gp.gen_pep(ctx.rng, cfg_l)
            if p.isotope:
                label_clauses(ctx, st, pt, p)


def reproduce(kf_id):
    import peptacular as pt
    if kf_id == 'K3':
        a = pt.fragment('<[10]@N-Term>PEP', 'b', 1)
        b = pt.fragment('[10]-PEP', 'b', 1)
        return any(abs(x.mass - y.mass) > 1e-6 for x, y in zip(a, b))
    return None


def replay(ctx, case):
    st = State()
    pt = install(ctx, st)
    p = rp.from_json(case['pep'])
    if case['clause'] == 'static':
        static_clauses(ctx, st, pt, p)
    else:
        label_clauses(ctx, st, pt, p)
