"""CLI: python -m vf.run C07 --tier quick

Parent mode splits the work into shards (fresh subprocess each, wall-clock
watchdog => inconclusive), merges their results, classifies violations against
known_findings.json, writes evidence/<id>.json and prints the verdict lines.

Exit 0: held on everything observed (KNOWN-FINDING lines where applicable)
Exit 1: VIOLATION property=<id> replay=<path>
Exit 2: INCONCLUSIVE property=<id> reason=...
"""
import argparse
import hashlib
import importlib
import json
import os
import subprocess
import sys
import tempfile
import time
from collections import Counter

import vf  # noqa: F401  (puts .deps on sys.path)
from vf.engine.verdict import Ctx, jsonable

ROOT = vf.ROOT
GUARD = 'PEPTACULAR_VERIF'


def load_known():
    path = os.path.join(ROOT, 'known_findings.json')
    if not os.path.exists(path):
        return []
    with open(path) as f:
        return json.load(f).get('findings', [])


def repo_root() -> str:
    """root of the checkout peptacular is imported from (src/peptacular/__init__.py -> ../..)"""
    import importlib.util
    spec = importlib.util.find_spec('peptacular')
    return os.path.dirname(os.path.dirname(os.path.dirname(spec.origin)))


def check_module(prop: str):
    return importlib.import_module(f'vf.checks.{prop.lower()}')


def run_shard(prop: str, tier: str, seed: int, shard: int, nshards: int, out: str) -> int:
    import warnings
    warnings.simplefilter('ignore')
    mod = check_module(prop)
    ctx = Ctx(prop, tier, seed, shard, nshards)
    try:
        mod.run(ctx)
    except Exception as ex:
        # An exception that escapes an unguarded workload call: if it was RAISED INSIDE the library (innermost frame in
        # the peptacular package) the library rejected an input the workload knows to be valid, or broke on its own
        # earlier output - that is a verdict on the case in hand, not a harness failure. Anything raised in vf's own
        # code stays a crash of the shard (exit 2, inconclusive).
        import traceback
        frames = traceback.extract_tb(ex.__traceback__)
        inner = frames[-1].filename if frames else ''
        if f'{os.sep}peptacular{os.sep}' in inner and f'{os.sep}vf{os.sep}' not in inner:
            where = [f'{os.path.basename(fr.filename)}:{fr.lineno} {fr.name}' for fr in frames[-4:]]
            ctx.decided()
            ctx.violation('library-raised-during-workload', {'exception': f'{type(ex).__name__}: {ex}'[:300],
                                                             'innermost_frames': where})
        else:
            raise
    finally:
        ctx.eng.detach_all()
    with open(out, 'w') as f:
        json.dump(ctx.result(), f)
    return 0


def merge(results):
    m = {
        'evaluations': 0, 'cases': 0, 'sigs': {}, 'samples': [], 'violations': [],
        'viol_counts': Counter(), 'kf_counts': Counter(), 'kf_examples': {}, 'inconclusive': [],
        'notes': Counter(), 'events': Counter(), 'nested': 0, 'max_depth': 0, 'contracts': Counter(),
        'exceptions': Counter(), 'rebound': {}, 'extra': {}, 'shard_wall': [],
    }
    for r in results:
        m['evaluations'] += r['evaluations']
        m['cases'] += r['cases']
        for s, nt in r['sigs'].items():
            m['sigs'][s] = m['sigs'].get(s, False) or nt
        m['samples'].extend(r['samples'][:2] if len(results) > 4 else r['samples'])
        m['violations'].extend(r['violations'])
        m['viol_counts'].update(r['viol_counts'])
        m['kf_counts'].update(r['kf_counts'])
        for k, v in r['kf_examples'].items():
            m['kf_examples'].setdefault(k, v)
        m['inconclusive'].extend(r['inconclusive'])
        m['notes'].update(r['notes'])
        e = r['engine']
        m['events'].update(e['events_by_function'])
        m['nested'] += e['nested_events']
        m['max_depth'] = max(m['max_depth'], e['max_depth'])
        m['contracts'].update(e['contract_evaluations'])
        m['exceptions'].update(e['exceptions_observed'])
        m['rebound'].update(e['rebound_namespaces'])
        for k, v in r.get('extra', {}).items():
            if k.startswith('max_') and isinstance(v, (int, float)):
                m['extra'][k] = max(m['extra'].get(k, 0), v)
            elif isinstance(v, (int, float)) and not isinstance(v, bool):
                m['extra'][k] = m['extra'].get(k, 0) + v
            elif isinstance(v, dict) and all(isinstance(x, (int, float)) for x in v.values()):
                d = m['extra'].setdefault(k, {})
                for kk, vv in v.items():
                    d[kk] = d.get(kk, 0) + vv
            elif isinstance(v, list):
                m['extra'].setdefault(k, [])
                for item in v:
                    if item not in m['extra'][k] and len(m['extra'][k]) < 400:
                        m['extra'][k].append(item)
            else:
                m['extra'].setdefault(k, v)
        m['shard_wall'].append(round(r['wall_s'], 2))
    return m


def main(argv=None) -> int:
    ap = argparse.ArgumentParser()
    ap.add_argument('prop')
    ap.add_argument('--tier', default=os.environ.get('VERIF_TIER', 'quick'), choices=['quick', 'thorough'])
    ap.add_argument('--seed', type=int, default=int(os.environ.get('VERIF_SEED', '0') or 0))
    ap.add_argument('--shard', type=int, default=None)
    ap.add_argument('--nshards', type=int, default=None)
    ap.add_argument('--out', default=None)
    ap.add_argument('--jobs', type=int, default=int(os.environ.get('VERIF_JOBS', '16')))
    ap.add_argument('--no-evidence', action='store_true')
    args = ap.parse_args(argv)
    prop = args.prop.upper()

    if args.shard is not None:
        return run_shard(prop, args.tier, args.seed, args.shard, args.nshards, args.out)

    t0 = time.time()
    mod = check_module(prop)
    nshards = min(args.jobs, getattr(mod, 'SHARDS', {}).get(args.tier, 16))
    timeout = getattr(mod, 'TIMEOUT', {}).get(args.tier, 1500 if args.tier == 'quick' else 7200)
    env = dict(os.environ)
    env['PYTHONHASHSEED'] = '0'
    env[GUARD] = '1'
    env['PYTHONPATH'] = ROOT + os.pathsep + env.get('PYTHONPATH', '')
    tmpdir = tempfile.mkdtemp(prefix=f'vf_{prop}_')
    procs = []
    for k in range(nshards):
        out = os.path.join(tmpdir, f'shard{k}.json')
        log = open(os.path.join(tmpdir, f'shard{k}.log'), 'w')
        p = subprocess.Popen([sys.executable, '-m', 'vf.run', prop, '--tier', args.tier, '--seed', str(args.seed),
                              '--shard', str(k), '--nshards', str(nshards), '--out', out],
                             cwd=ROOT, env=env, stdout=log, stderr=subprocess.STDOUT)
        procs.append((k, p, out, log))
    suite = None
    if args.tier == 'thorough' and getattr(mod, 'SUITE_WORKLOAD', False):
        # the repository's own suite as one more workload, under the generic monitors of this property
        out = os.path.join(tmpdir, 'suite.json')
        log = open(os.path.join(tmpdir, 'suite.log'), 'w')
        env2 = dict(env)
        env2['VF_PLUGIN_PROP'] = prop
        env2['VF_PLUGIN_OUT'] = out
        p = subprocess.Popen([sys.executable, '-m', 'pytest', '-q', '-p', 'no:cacheprovider', '-p', 'vf.pytest_plugin',
                              '--timeout=1800', 'tests'], cwd=repo_root(), env=env2, stdout=log,
                             stderr=subprocess.STDOUT)
        suite = (p, out, log)
    results, failures = [], []
    deadline = t0 + timeout
    for k, p, out, log in procs:
        try:
            rc = p.wait(timeout=max(1.0, deadline - time.time()))
        except subprocess.TimeoutExpired:
            p.kill()
            p.wait()
            failures.append(f'shard {k} exceeded the wall-clock watchdog ({timeout}s)')
            continue
        finally:
            log.close()
        if rc != 0 or not os.path.exists(out):
            tail = open(os.path.join(tmpdir, f'shard{k}.log')).read()[-1500:]
            failures.append(f'shard {k} exited {rc}: {tail}')
            continue
        with open(out) as f:
            results.append(json.load(f))
    suite_note = None
    if suite is not None:
        p, out, log = suite
        try:
            rc = p.wait(timeout=max(1.0, deadline - time.time()))
            log.close()
            tail = open(os.path.join(tmpdir, 'suite.log')).read().strip().split('\n')[-1]
            suite_note = f'repository suite under monitors: exit {rc}: {tail}'
            if os.path.exists(out):
                with open(out) as f:
                    results.append(json.load(f))
            if rc != 0:
                failures.append('repository suite under monitors did not pass: ' + tail)
        except subprocess.TimeoutExpired:
            p.kill()
            p.wait()
            failures.append('repository suite under monitors exceeded the watchdog')
    import shutil
    shutil.rmtree(tmpdir, ignore_errors=True)

    m = merge(results)
    if suite_note:
        m['notes'][suite_note] += 1
    known = [k for k in load_known() if k['property'] == prop]
    open_ids = {k['id'] for k in known if k.get('status') == 'open'}

    unexplained = [v for v in m['violations'] if v.get('kf') not in open_ids]
    n_unexplained = sum(c for key, c in m['viol_counts'].items()
                        if (key.split('|', 1)[1] or None) not in open_ids)
    n_known = sum(c for key, c in m['viol_counts'].items() if (key.split('|', 1)[1] or None) in open_ids)

    # concrete inputs of open findings are re-run (information only)
    kf_lines = []
    for k in known:
        if k.get('status') != 'open':
            continue
        reproduced = None
        if hasattr(mod, 'reproduce'):
            try:
                import warnings
                with warnings.catch_warnings():
                    warnings.simplefilter('ignore')
                    reproduced = mod.reproduce(k['id'])
            except Exception as e:  # the probe itself must never alarm
                reproduced = None
                m['notes'][f'reproduce_error_{k["id"]}:{type(e).__name__}'] += 1
        seen = m['kf_counts'].get(k['id'], 0)
        tag = '' if (reproduced or seen) else ' (not reproduced)'
        kf_lines.append(f"KNOWN-FINDING{tag}: property={prop} {k['id']} {k['what']} "
                        f"[observed {seen}x this run; pinned input: {k['input']}]")

    deciding = getattr(mod, 'DECIDING', [])
    missing = [d for d in deciding if m['contracts'].get(d, 0) == 0]
    nontrivial = sorted(s for s, nt in m['sigs'].items() if nt)

    status = 'held'
    reason = ''
    if unexplained or n_unexplained:
        status = 'violated'
    elif failures:
        status, reason = 'inconclusive', '; '.join(failures)[:600]
    elif missing:
        status, reason = 'inconclusive', 'deciding monitor never evaluated: ' + ','.join(missing)
    elif m['evaluations'] == 0 or len(nontrivial) < 2:
        status, reason = 'inconclusive', f'too few decided cases ({m["evaluations"]} evaluations, ' \
                                         f'{len(nontrivial)} non-trivial signatures)'
    elif m['notes'].get('inconclusive_cases', 0) > max(50, 0.2 * m['cases']):
        status, reason = 'inconclusive', f'{m["notes"]["inconclusive_cases"]} inconclusive cases'

    replay_paths = []
    if status == 'violated':
        os.makedirs(os.path.join(ROOT, 'replays', prop), exist_ok=True)
        seen_kinds = Counter()
        for v in unexplained:
            seen_kinds[v['kind']] += 1
            if seen_kinds[v['kind']] > 3:
                continue
            blob = json.dumps(v, sort_keys=True)
            h = hashlib.sha1(blob.encode()).hexdigest()[:12]
            path = os.path.join(ROOT, 'replays', prop, f'{h}.json')
            with open(path, 'w') as f:
                json.dump(v, f, indent=1, sort_keys=True)
            replay_paths.append(os.path.relpath(path, ROOT))

    wall = time.time() - t0
    if not args.no_evidence:
        write_evidence(mod, prop, args, m, nontrivial, status, reason, n_unexplained, n_known, known, wall, nshards)

    for line in kf_lines:
        print(line)
    print(f'{prop} tier={args.tier} seed={args.seed} shards={nshards} cases={m["cases"]} '
          f'evaluations={m["evaluations"]} distinct_nontrivial={len(nontrivial)} '
          f'monitored_events={sum(m["events"].values())} nested={m["nested"]} '
          f'known_finding_hits={n_known} wall={wall:.1f}s status={status}')
    if status == 'violated':
        kinds = Counter(v['kind'] for v in unexplained)
        print(f'{prop}: {n_unexplained} unexplained violation(s): {dict(kinds)}')
        for pth in replay_paths:
            print(f'VIOLATION property={prop} replay={pth}')
        if not replay_paths:
            print(f'VIOLATION property={prop} replay=none')
        return 1
    if status == 'inconclusive':
        print(f'INCONCLUSIVE property={prop} reason={reason}')
        return 2
    return 0


def write_evidence(mod, prop, args, m, nontrivial, status, reason, n_unexplained, n_known, known, wall, nshards):
    os.makedirs(os.path.join(ROOT, 'evidence'), exist_ok=True)
    cov = {
        'evaluations': int(m['evaluations']),
        'distinct_nontrivial': len(nontrivial),
        'rule': getattr(mod, 'RULE', ''),
        'samples': m['samples'][:12] if m['samples'] else [],
        'cases': m['cases'],
        'distinct_signatures_total': len(m['sigs']),
        'signature_examples': nontrivial[:25],
        'events_by_function': dict(m['events']),
        'monitored_events': int(sum(m['events'].values())),
        'nested_events': m['nested'],
        'max_depth': m['max_depth'],
        'contract_evaluations': dict(m['contracts']),
        'rebound_namespaces': m['rebound'],
        'exceptions_observed': dict(m['exceptions']),
        'known_findings_observed': dict(m['kf_counts']),
        'known_finding_examples': m['kf_examples'],
        'violation_counts': dict(m['viol_counts']),
        'inconclusive_cases': int(m['notes'].get('inconclusive_cases', 0)),
        'inconclusive_reasons': m['inconclusive'][:10],
        'notes': dict(m['notes']),
        'status': status,
        'status_reason': reason,
        'shards': nshards,
        'shard_wall_s': m['shard_wall'],
    }
    if getattr(mod, 'EXHAUSTIVE', {}).get(args.tier):
        cov['exhaustive'] = True
        cov['exhaustive_subspace'] = mod.EXHAUSTIVE[args.tier]
    cov.update(m['extra'])
    ev = {
        'property_id': prop,
        'tier': args.tier,
        'seed': int(args.seed),
        'level': 'exploration',
        'coverage': jsonable(cov),
        'assumptions': getattr(mod, 'ASSUMPTIONS', []),
        'wall_s': round(wall, 2),
        'violations': int(n_unexplained),
    }
    with open(os.path.join(ROOT, 'evidence', f'{prop}.json'), 'w') as f:
        json.dump(ev, f, indent=1, sort_keys=True)


if __name__ == '__main__':
    sys.exit(main())
