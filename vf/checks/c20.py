"""C20 - modification dictionaries and annotation copies reconstruct the same peptide; equality is exact."""
import copy as _copy

from vf.checks.c08 import deep, mutable_ids
from vf.gen import pep as gp
from vf.ref import pep as rp
from vf.ref.pep import M, Iv, Pep, Rule

PA = 'peptacular.proforma.proforma_parser.ProFormaAnnotation.'
DECIDING = ['peptacular.sequence.sequence_funcs.get_mods', 'peptacular.sequence.sequence_funcs.add_mods', PA + '__eq__']
RULE = ('generated annotations (all kinds, several modifications per position, multipliers) and every single-field '
        'perturbation of them (value, value differing only in letter case / prefix case / last character, multiplier, position, interval bound/flag, charge, adducts, label, rule target, residue, '
        'dropped or duplicated modification, N/C swap); post-conditions: add_mods(strip_mods(s), get_mods(s)) == s and the '
        'pop_mods variant (module function and the pop_mods()/add_mod_dict() methods), create_annotation(**a.dict()) == a, copy() equal and sharing no mutable object (and edits of the '
        'copy leave the source unchanged), strip_mods leaves residues only; == reflexive, symmetric, insensitive to the '
        'order of modifications at one position, False (both directions) for every perturbation. signature = (clause, '
        'perturbation kind, modification placements); non-trivial = at least two modification kinds')
ASSUMPTIONS = ['the perturbation generator guarantees a semantic difference: changed values differ as Python values, moves go '
               'to a site whose resulting multiset differs']
LEVEL_TEXT = ('Every get_mods/add_mods/pop_mods/strip_mods/create_annotation/copy/== execution on generated annotations and '
              'their perturbations is checked by post-conditions; held on the executions observed.')
TECHNIQUE = 'runtime monitoring: post-conditions on dictionary/copy/equality functions with a perturbation generator'

LETTERS = list('ACDEFGHIKLMNPQRSTVWY')


class State:
    def __init__(self):
        self.eq_calls = 0
        self.counts = {}


def install(ctx, st: State):
    import peptacular as pt

    def eq_post(call):
        st.eq_calls += 1

    ctx.eng.attach(PA + '__eq__', post=eq_post)
    for fn in ('get_mods', 'add_mods', 'pop_mods', 'strip_mods'):
        ctx.eng.attach('peptacular.sequence.sequence_funcs.' + fn, post=lambda call: None)
    ctx.eng.attach('peptacular.proforma.proforma_parser.create_annotation', post=lambda call: None)
    ctx.eng.attach(PA + 'copy', post=lambda call: None)
    ctx.eng.attach(PA + 'dict', post=lambda call: None)
    return pt


def other_value(rng, m: M) -> M:
    v = m.val()
    if isinstance(v, (int, float)):
        return M(repr(v + 1), m.mult, kind=m.kind)
    alt = 'Oxidation' if 'Oxidation' not in m.text else 'Methyl'
    return M(alt, m.mult, kind='unimod-name')


def mod_lists(p: Pep):
    """(label, list object) for every modification list of the specification"""
    out = [('labile', p.labile), ('unknown', p.unknown), ('nterm', p.nterm), ('cterm', p.cterm)]
    for i in sorted(p.res):
        out.append((f'res{i}', p.res[i]))
    for k, iv in enumerate(p.intervals):
        out.append((f'interval{k}', iv.mods))
    return [(lab, lst) for lab, lst in out if lst]


def perturbations(rng, p: Pep):
    """yields (kind, perturbed Pep) - each semantically different from p"""
    lists = mod_lists(p)
    if lists:
        lab, _ = rng.choice(lists)
        q = p.copy()
        lst = dict(mod_lists(q))[lab]
        j = rng.randrange(len(lst))
        lst[j] = other_value(rng, lst[j])
        yield 'value', q
        q = p.copy()
        lst = dict(mod_lists(q))[lab]
        j = rng.randrange(len(lst))
        lst[j] = M(lst[j].text, lst[j].mult + 1, kind=lst[j].kind)
        yield 'multiplier', q
        q = p.copy()
        lst = dict(mod_lists(q))[lab]
        j = rng.randrange(len(lst))
        lst.append(M(lst[j].text, lst[j].mult, kind=lst[j].kind))
        yield 'duplicate', q
        q = p.copy()
        lst = dict(mod_lists(q))[lab]
        del lst[rng.randrange(len(lst))]
        if lab.startswith('res') and not lst:
            del q.res[int(lab[3:])]
        yield 'drop', q
        # near values: a textual value that differs only in letter case (of its prefix, or of the whole value) or by its
        # last character is a different modification value
        txt = [(lb, j) for lb, l0 in lists for j, x in enumerate(l0) if isinstance(x.val(), str)]
        if txt:
            lb, j = rng.choice(txt)
            t = dict(lists)[lb][j].text
            variants = []
            if ':' in t and t.split(':', 1)[0].isalpha():
                pre, rest = t.split(':', 1)
                variants.append(('value-prefix-case', (pre.lower() if pre != pre.lower() else pre.upper()) + ':' + rest))
            if t.swapcase() != t:
                variants.append(('value-case', t.swapcase()))
                k = next(i for i, ch in enumerate(t) if ch.swapcase() != ch)
                variants.append(('value-case', t[:k] + t[k].swapcase() + t[k + 1:]))
            if len(t) > 2 and t[-1].isalpha() and t[-2].isalpha():
                variants.append(('value-last-char', t[:-1]))
            if variants:
                kind, t2 = rng.choice(variants)
                q = p.copy()
                l2 = dict(mod_lists(q))[lb]
                l2[j] = M(t2, l2[j].mult, kind=l2[j].kind)
                if isinstance(l2[j].val(), str) and l2[j].val() != dict(lists)[lb][j].val():
                    yield kind, q
    # one copy of a repeated modification becomes another modification that is already present at that position:
    # same length, same set of distinct modifications, different multiset
    for lab, lst in lists:
        pairs_ = [x.pair() for x in lst]
        rep = [j for j, pr in enumerate(pairs_) if pairs_.count(pr) >= 2]
        oth = [j for j, pr in enumerate(pairs_) if pairs_.count(pr) < 2 or pr != pairs_[rep[0]]] if rep else []
        oth = [j for j in oth if pairs_[j] != pairs_[rep[0]]] if rep else []
        if rep and oth:
            q = p.copy()
            l2 = dict(mod_lists(q))[lab]
            src = l2[rng.choice(oth)]
            l2[rep[0]] = M(src.text, src.mult, kind=src.kind)
            yield 'value-to-sibling', q
            break
    if p.res and len(p.seq) >= 2:
        i = rng.choice(sorted(p.res))
        cands = [k for k in range(len(p.seq)) if k != i and
                 sorted((x.pair() for x in p.res.get(k, [])), key=repr) != sorted((x.pair() for x in p.res[i]), key=repr)]
        if cands:
            k = rng.choice(cands)
            q = p.copy()
            moved = q.res.pop(i)
            q.res[k] = q.res.get(k, []) + moved[:1]
            if moved[1:]:
                q.res[i] = moved[1:]
            yield 'position', q
    if p.nterm and sorted((x.pair() for x in p.nterm), key=repr) != sorted((x.pair() for x in p.cterm), key=repr):
        q = p.copy()
        q.nterm, q.cterm = p.cterm, p.nterm
        yield 'swap-termini', q
    if p.intervals:
        k = rng.randrange(len(p.intervals))
        iv = p.intervals[k]
        q = p.copy()
        q.intervals[k].ambiguous = not iv.ambiguous
        yield 'interval-flag', q
        if iv.end - iv.start >= 2:
            q = p.copy()
            if rng.random() < 0.5:
                q.intervals[k].start += 1
            else:
                q.intervals[k].end -= 1
            yield 'interval-bound', q
    q = p.copy()
    if p.charge is None:
        q.charge, q.charge_text = 2, '2'
    else:
        q.charge = p.charge + 1 if p.charge + 1 != 0 else p.charge + 2
        q.charge_text = str(q.charge)
    yield 'charge', q
    if p.adducts:
        q = p.copy()
        q.adducts = p.adducts + ',+K+'
        yield 'adducts', q
    if p.isotope:
        q = p.copy()
        q.isotope = [('15N' if x != '15N' else '13C') if j == 0 else x for j, x in enumerate(p.isotope)]
        if q.isotope != p.isotope:
            yield 'label', q
    if p.static:
        q = p.copy()
        r = q.static[0]
        q.static[0] = Rule(r.mods, [('W' if t != 'W' else 'Y') if j == 0 else t for j, t in enumerate(r.targets)])
        yield 'rule-target', q
    q = p.copy()
    j = rng.randrange(len(p.seq))
    q.seq = p.seq[:j] + ('G' if p.seq[j] != 'G' else 'A') + p.seq[j + 1:]
    if not any(t == p.seq[j] or t == q.seq[j] for r in p.static for t in r.targets):
        yield 'residue', q


def run_case(ctx, st, pt, p: Pep):
    rng = ctx.rng
    text = rp.write(p)
    ctx.begin({'text': text, 'pep': rp.to_json(p)})
    try:
        a = pt.parse(text)
    except Exception as ex:
        ctx.violation('valid-string-rejected', {'text': text, 'exception': type(ex).__name__})
        return
    s = a.serialize()

    def cnt(k):
        st.counts[k] = st.counts.get(k, 0) + 1

    # 1. dictionary round trips
    try:
        d = pt.get_mods(s)
        back = pt.add_mods(pt.strip_mods(s), d)
        cnt('mod-dict-round-trip')
        ctx.decided()
        if back != s:
            ctx.violation('add_mods(strip_mods, get_mods)-differs', {'canonical': s, 'rebuilt': back,
                                                                     'mod_dict': repr(d)[:300]})
        stripped, d2 = pt.pop_mods(s)
        back2 = pt.add_mods(stripped, d2)
        ctx.decided()
        if back2 != s or stripped != p.seq:
            ctx.violation('add_mods(pop_mods)-differs', {'canonical': s, 'rebuilt': back2, 'stripped': stripped})
        # method form: pop_mods() leaves the residues only and add_mod_dict() of what it returned restores the peptide
        m2 = a.copy()
        d3 = m2.pop_mods()
        bare = m2.serialize()
        m2.add_mod_dict(d3)
        cnt('pop_mods-add_mod_dict')
        ctx.decided()
        if bare != p.seq or not (m2 == a and a == m2) or m2.serialize() != s:
            ctx.violation('add_mod_dict(pop_mods())-differs', {'canonical': s, 'after_pop': bare, 'rebuilt': m2.serialize(),
                                                               'popped': repr(d3)[:300]})
        m3 = a.strip()
        m3.add_mod_dict(a.mod_dict())
        ctx.decided()
        if not (m3 == a) or m3.serialize() != s:
            ctx.violation('strip().add_mod_dict(mod_dict())-differs', {'canonical': s, 'rebuilt': m3.serialize()})
        ctx.decided()
        if pt.strip_mods(s) != p.seq or pt.strip_mods(a) != p.seq:
            ctx.violation('strip_mods-changed-residues-or-left-modifications', {'canonical': s,
                                                                                'stripped': pt.strip_mods(s)})
        sa = a.strip()
        if rp.observed_fields(sa) != rp.expected_fields(Pep(p.seq)):
            ctx.violation('strip-left-a-modification', {'canonical': s, 'stripped_fields': rp.observed_fields(sa)})
    except Exception as ex:
        ctx.decided()
        ctx.violation('dictionary-functions-raise', {'canonical': s, 'exception': f'{type(ex).__name__}: {ex}'[:200]})
    # 2. create_annotation(**a.dict()) == a
    try:
        b = pt.create_annotation(**a.dict())
        cnt('create_annotation')
        ctx.decided()
        if not (b == a) or not (a == b) or rp.observed_fields(b) != rp.observed_fields(a):
            ctx.violation('create_annotation(**dict)-not-equal', {'canonical': s, 'rebuilt': b.serialize()})
    except Exception as ex:
        ctx.decided()
        ctx.violation('create_annotation-raises', {'canonical': s, 'exception': f'{type(ex).__name__}: {ex}'[:200]})
    # 3. copies are equal and independent
    c = a.copy()
    cnt('copy')
    ctx.decided()
    if not (c == a) or deep(c) != deep(a):
        ctx.violation('copy-not-equal', {'canonical': s})
    ids_a = {}
    mutable_ids(a, ids_a)
    ids_c = {}
    mutable_ids(c, ids_c)
    ctx.decided()
    if set(ids_a) & set(ids_c):
        ctx.violation('copy-shares-mutable-state', {'canonical': s,
                                                    'shared_types': sorted({ids_a[i] for i in set(ids_a) & set(ids_c)})})
    before = deep(a)
    c.add_internal_mod(0, 'Marker', append=True)
    c.add_nterm_mods('Marker', append=True)
    c.labile_mods = None
    if c.intervals:
        c.intervals[0].start = 99
    for lst in (c.unknown_mods, c.cterm_mods, c.static_mods, c.isotope_mods, c.charge_adducts):
        if lst:
            lst[0].val = 'Marker'
    ctx.decided()
    if deep(a) != before:
        ctx.violation('editing-the-copy-changed-the-source', {'canonical': s})
    # 3b. an annotation edited in place (one modification value or multiplier, after it has already been compared
    #     once) is a different peptide, and equals what its own text and its own field dictionary rebuild
    e = a.copy()
    pool = []
    for lst in (e.labile_mods, e.unknown_mods, e.nterm_mods, e.cterm_mods):
        pool += list(lst or [])
    for lst in (e.internal_mods or {}).values():
        pool += list(lst)
    for iv in (e.intervals or []):
        pool += list(iv.mods or [])
    if pool and (e == a):
        m = rng.choice(pool)
        if rng.random() < 0.5:
            m.mult = m.mult + 1
            how = 'multiplier'
        else:
            m.val = (m.val + 1) if isinstance(m.val, (int, float)) else ('Methyl' if m.val != 'Methyl' else 'Oxidation')
            how = 'value'
        cnt('in-place-edit')
        ctx.decided()
        try:
            es = e.serialize()
            fresh = pt.parse(es)
            rebuilt = pt.create_annotation(**e.dict())
            if (e == a) or (a == e):
                ctx.violation('eq-insensitive-to-in-place-edit', {'edited': how, 'a': s, 'edited_text': es})
            elif not (fresh == e and e == fresh):
                ctx.violation('edited-annotation-differs-from-parse-of-its-own-text', {'edited': how, 'edited_text': es})
            elif not (rebuilt == e and e == rebuilt):
                ctx.violation('edited-annotation-differs-from-its-own-field-dictionary', {'edited': how,
                                                                                         'edited_text': es})
        except Exception as ex:
            ctx.violation('in-place-edit-raises', {'canonical': s, 'exception': f'{type(ex).__name__}: {ex}'[:200]})
        ctx.sig(('in-place-edit', how, p.features()), True)
    # 4. equality laws
    cnt('eq-reflexive')
    ctx.decided()
    if not (a == a) or (a != a):
        ctx.violation('eq-not-reflexive', {'canonical': s})
    # order of modifications at one position does not matter
    lists = [(lab, lst) for lab, lst in mod_lists(p) if len(lst) >= 2]
    if lists:
        q = p.copy()
        for lab, lst in mod_lists(q):
            if len(lst) >= 2:
                lst.reverse()
        b = pt.parse(rp.write(q))
        cnt('eq-order-insensitive')
        ctx.decided()
        if not (a == b) or not (b == a):
            ctx.violation('eq-sensitive-to-modification-order', {'a': s, 'b': b.serialize()})
        ctx.sig(('order', p.features()), True)
    # every single-field perturbation is unequal, both ways
    for kind, q in perturbations(rng, p):
        try:
            b = pt.parse(rp.write(q))
        except Exception:
            continue
        if rp.expected_fields(q) == rp.expected_fields(p):
            continue
        cnt('eq-perturbation')
        ctx.decided()
        ab, ba = (a == b), (b == a)
        if ab or ba or not (a != b):
            ctx.violation('eq-insensitive-to-perturbation', {'kind': kind, 'a': s, 'b': b.serialize(),
                                                             'a==b': ab, 'b==a': ba})
        elif ab != ba:
            ctx.violation('eq-not-symmetric', {'kind': kind, 'a': s, 'b': b.serialize()})
        ctx.sig(('perturbation', kind, p.features()), len(p.features()) >= 2)
    ctx.sig(('round-trips', p.features(), p.spelling_classes()), len(p.features()) >= 2)
    ctx.sample({'text': text})


def run(ctx):
    st = State()
    pt = install(ctx, st)
    ctx.enable_disturb(pt, 0.02)     # other legitimate library calls interleaved between cases (vf.gen.disturb)
    cfg = gp.GenCfg(min_len=1, max_len=14, letters=LETTERS, weights=dict(gp.W_ALL), p_res=0.35, max_per_site=3,
                    p_interval=0.3, p_charge=0.3, p_isotope=0.2, p_static=0.25, p_labile=0.25, p_unknown=0.2, p_mult=0.15)
    import copy as _copy
    for _ in range(ctx.n(25000, 400000)):
        p = gp.gen_pep(ctx.rng, cfg)
        if ctx.rng.random() < 0.2:
            # a position that carries the same modification twice next to a different one ([A][B][A])
            many = [lst for _lab, lst in mod_lists(p) if len({x.pair() for x in lst}) >= 2]
            if many:
                lst = ctx.rng.choice(many)
                lst.append(_copy.deepcopy(ctx.rng.choice(lst)))
        run_case(ctx, st, pt, p)
    ctx.extra['eq_executions'] = st.eq_calls
    for k, v in st.counts.items():
        ctx.extra['clause_' + k] = v


def replay(ctx, case):
    st = State()
    pt = install(ctx, st)
    run_case(ctx, st, pt, rp.from_json(case['pep']))
