"""sys.monitoring observers (Python 3.12): RAISE log, logical step budget, reach map.

All three are restricted to code objects whose file lives under peptacular/.
"""
import os
import sys
from collections import Counter
from typing import Optional

TOOL = 4  # a free tool id (0-5); 4 is not reserved by debugger/coverage/profiler/optimizer
mon = getattr(sys, 'monitoring', None)


class StepBudgetExceeded(BaseException):
    """Raised inside the library when one depth-0 call executes more LINE events than its budget.
    BaseException so that `except Exception` inside the library cannot swallow it."""


def _lib_root() -> str:
    import importlib.util
    spec = importlib.util.find_spec('peptacular')
    return os.path.dirname(spec.origin) + os.sep


class Observers:
    def __init__(self) -> None:
        self.root = _lib_root()
        self.raises: Counter = Counter()        # (qualname, exception class) incl. swallowed ones
        self.reached: Counter = Counter()       # qualname -> PY_START count
        self.steps = 0
        self.budget: Optional[int] = None
        self.max_steps_seen = 0
        self.active = False
        self._events = 0

    # -- callbacks -----------------------------------------------------------
    def _on_raise(self, code, offset, exc):
        if code.co_filename.startswith(self.root):
            if not isinstance(exc, StepBudgetExceeded):
                self.raises[(code.co_qualname, type(exc).__name__)] += 1
        return None

    def _on_start(self, code, offset):
        if code.co_filename.startswith(self.root):
            self.reached[code.co_qualname] += 1
            return None
        return mon.DISABLE

    def _on_line(self, code, line):
        if not code.co_filename.startswith(self.root):
            return mon.DISABLE
        self.steps += 1
        if self.budget is not None and self.steps > self.budget:
            self.budget = None  # raise once
            raise StepBudgetExceeded(f'{self.steps} LINE events in {code.co_qualname}:{line}')
        return None

    # -- control -------------------------------------------------------------
    def start(self, raises: bool = True, reach: bool = True, lines: bool = False) -> bool:
        if mon is None:
            return False
        try:
            mon.use_tool_id(TOOL, 'vf')
        except ValueError:
            return False
        ev = 0
        if raises:
            mon.register_callback(TOOL, mon.events.RAISE, self._on_raise)
            ev |= mon.events.RAISE
        if reach:
            mon.register_callback(TOOL, mon.events.PY_START, self._on_start)
            ev |= mon.events.PY_START
        if lines:
            mon.register_callback(TOOL, mon.events.LINE, self._on_line)
            ev |= mon.events.LINE
        mon.set_events(TOOL, ev)
        self._events = ev
        self.active = True
        return True

    def stop(self) -> None:
        if mon is None or not self.active:
            return
        mon.set_events(TOOL, 0)
        for e in (mon.events.RAISE, mon.events.PY_START, mon.events.LINE):
            mon.register_callback(TOOL, e, None)
        mon.free_tool_id(TOOL)
        self.active = False

    def begin_call(self, budget: Optional[int]) -> None:
        self.steps = 0
        self.budget = budget

    def end_call(self) -> int:
        n = self.steps
        if n > self.max_steps_seen:
            self.max_steps_seen = n
        self.budget = None
        return n

    def summary(self) -> dict:
        return {
            'raises_inside_library': {f'{k[0]}:{k[1]}': v for k, v in self.raises.most_common(60)},
            'functions_reached': len(self.reached),
            'functions_reached_top': [k for k, _ in self.reached.most_common(40)],
            'max_line_events_per_call': self.max_steps_seen,
        }
