"""C02 - peptide mass and m/z equal the sum of their physical parts (independent NIST-based reference)."""
from vf.gen import pep as gp
from vf.ref import atoms, chem
from vf.ref import pep as rp
from vf.ref.pep import M, Iv, Pep, Rule

DECIDING = ['peptacular.mass_calc.mass', 'peptacular.mass_calc.mz']
RULE = ('Pep specifications with modifications of a-priori known mass (numeric, Formula incl. isotopes, every Unimod '
        'entry, monosaccharide glycans) at every placement, multipliers, charge -4..6 in the string or as argument, '
        'isotope 0..4, real losses, precision None/0..6, adduct lists, both mass modes; mass/mz compared with the '
        'reference sum built from the frozen NIST table; mod_mass and chem_mass checked on every (nested) call whose '
        'argument has a known reference value. signature = (placements, spelling classes, mode, charge class, '
        'adducts, precision class); non-trivial = at least one modification or a non-zero charge')
ASSUMPTIONS = ['average mass of an element = sum(isotope mass x abundance) (the library\'s documented definition)',
               'named entries: the tabulated Unimod / monosaccharide masses are the a-priori values',
               'no global isotope labels here (C12)']
LEVEL_TEXT = ('mass/mz/mod_mass/chem_mass executions are compared by post-conditions with a reference computed '
              'from an independent atomic table; held on the executions observed.')
TECHNIQUE = 'runtime monitoring: post-conditions on mass/mz/mod_mass/chem_mass against an independent NIST-based model'

LETTERS = [c for c in chem.MASS_LETTERS]


def tol(mono, precision, fn='mass'):
    t = 1e-5 if mono else 2e-3
    if precision is not None:
        t += (1.0 if fn == 'mz' else 0.5) * 10 ** (-precision) + 1e-9
    return t


class State:
    def __init__(self):
        self.expect = None
        self.known = {}
        self.mod_mass_checked = 0
        self.chem_mass_checked = 0


def install(ctx, st: State):
    import peptacular as pt
    from peptacular.proforma.proforma_dataclasses import Mod

    def mass_post(call):
        e = st.expect
        if call.depth != 0 or e is None or e['fn'] != call.name.rsplit('.', 1)[1]:
            return
        ctx.decided()
        obs = call.result
        ref = e['ref']
        t = tol(e['mono'], e['precision'], e['fn'])
        if abs(obs - ref) <= t:
            return
        kf = None
        if e.get('ref_k2') is not None and abs(obs - e['ref_k2']) <= t:
            kf = 'K2'
        ctx.violation(e['fn'] + '-differs-from-reference',
                      {'text': e['text'], 'kwargs': e['kwargs'], 'observed': obs, 'reference': ref,
                       'difference': obs - ref, 'tolerance': t}, kf=kf)

    def mass_raise(call):
        e = st.expect
        if call.depth != 0 or e is None or e['fn'] != call.name.rsplit('.', 1)[1]:
            return
        ctx.decided()
        ctx.violation(e['fn'] + '-raises', {'text': e['text'], 'kwargs': e['kwargs'],
                                            'exception': f'{type(call.exc).__name__}: {call.exc}'[:300]})

    def mod_mass_post(call):
        mod = call.arg(0, 'mod')
        mono = call.arg(1, 'monoisotopic', True)
        prec = call.arg(2, 'precision', None)
        mult = 1
        if isinstance(mod, Mod):
            mod, mult = mod.val, mod.mult
        if not isinstance(mod, str):
            return
        k = st.known.get(mod)
        if k is None:
            return
        ref = (k[0] if mono else k[1])
        if ref is None:
            return
        st.mod_mass_checked += 1
        ctx.decided()
        t = tol(mono, prec) * max(1, mult)
        if abs(call.result - ref * mult) > t:
            ctx.violation('mod_mass-differs-from-reference',
                          {'mod': mod, 'mult': mult, 'monoisotopic': mono, 'observed': call.result,
                           'reference': ref * mult})

    def chem_mass_post(call):
        f = call.arg(0, 'formula')
        if not isinstance(f, dict) or not f:
            return
        mono = call.arg(1, 'monoisotopic', True)
        prec = call.arg(2, 'precision', None)
        try:
            ref = atoms.comp_mass(f, mono)
        except (KeyError, IndexError, ValueError):
            return
        st.chem_mass_checked += 1
        ctx.decided()
        n = sum(abs(v) for v in f.values())
        t = 1e-9 * max(1, n) + (0.5 * 10 ** (-prec) + 1e-9 if prec is not None else 0)
        if abs(call.result - ref) > t:
            ctx.violation('chem_mass-differs-from-reference',
                          {'composition': f, 'monoisotopic': mono, 'observed': call.result, 'reference': ref})

    ctx.eng.attach('peptacular.mass_calc.mass', post=mass_post, on_raise=mass_raise)
    ctx.eng.attach('peptacular.mass_calc.mz', post=mass_post, on_raise=mass_raise)
    ctx.eng.attach('peptacular.mass_calc.mod_mass', post=mod_mass_post)
    ctx.eng.attach('peptacular.chem.chem_util.chem_mass', post=chem_mass_post)
    return pt


def gen_case(rng, cfg):
    p = gp.gen_pep(rng, cfg)
    kw = {}
    mono = rng.random() < 0.6
    kw['monoisotopic'] = mono
    charge = p.charge
    adducts = p.adducts
    if rng.random() < 0.4:
        charge = rng.randint(-4, 6)
        kw['charge'] = charge
    if rng.random() < 0.15:
        adducts = gp.gen_adducts(rng)
        kw['charge_adducts'] = adducts
        if charge is None:
            charge = rng.randint(1, 4)
            kw['charge'] = charge
    iso = rng.choice([0, 0, 1, 2, 3, 4])
    if iso:
        kw['isotope'] = iso
    loss = 0.0
    if rng.random() < 0.3:
        loss = rng.choice([-18.010565, -17.026549, round(rng.uniform(-100, 100), 4), 1.5])
        kw['loss'] = loss
    prec = rng.choice([None, None, 0, 1, 2, 3, 4, 5, 6])
    if prec is not None:
        kw['precision'] = prec
    return p, kw, charge, adducts, iso, loss, prec, mono


def run_case(ctx, st, pt, p, kw, charge, adducts, iso, loss, prec, mono, fn='mass', extra_sig=()):
    text = rp.write(p)
    for m in p.all_mods():
        st.known[m.text] = (m.mono, m.avg)
    if len(st.known) > 20000:
        st.known.clear()
    c = charge if charge is not None else 0
    ref = rp.ref_mass(p, 'p', c, mono, iso, loss, adducts, None)
    ref_k2 = rp.ref_mass(p, 'p', c, mono, iso, loss, adducts, None, emulate=('K2',)) if adducts else None
    if fn == 'mz':
        if c <= 0:
            return
        ref = ref / c
        ref_k2 = ref_k2 / c if ref_k2 is not None else None
    # the reference stays unrounded: the observed value is rounded (m/z: the mass is rounded, divided, rounded again),
    # which tol() allows for; rounding the reference as well would double the allowance needed at a rounding boundary
    kw = {k: v for k, v in kw.items() if not (fn == 'mz' and k == 'use_isotope_on_mods')}
    st.expect = {'fn': fn, 'ref': ref, 'ref_k2': ref_k2, 'mono': mono, 'precision': prec, 'text': text, 'kwargs': kw}
    ctx.begin({'text': text, 'fn': fn, 'kwargs': kw, 'pep': rp.to_json(p), 'args': [charge, adducts, iso, loss, prec, mono]})
    try:
        getattr(pt, fn)(text, **kw)
    except Exception:
        pass
    finally:
        st.expect = None
    feats = p.features()
    nontrivial = bool(p.all_mods()) or c != 0
    ctx.sig((fn, feats, p.spelling_classes(), 'mono' if mono else 'avg',
             'neg' if c < 0 else 'zero' if c == 0 else 'pos', bool(adducts), prec is not None, iso > 0, loss != 0.0)
            + tuple(extra_sig), nontrivial)
    ctx.sample({'text': text, 'fn': fn, 'kwargs': kw, 'reference': ref})


def unimod_placements(e, placement):
    v = gp.vocab()
    name_ok = gp.writable(e.name, '<>' if placement.startswith('static') else '{}' if placement == 'labile' else '[]') \
        and e in v.unimod_bare
    text = e.name if name_ok else 'UNIMOD:' + e.id
    m = M(text, mono=e.mono, avg=e.avg, comp=e.comp, kind='unimod-name' if name_ok else 'unimod-acc', named=True)
    p = Pep('PEPTKDE')
    if placement == 'residue':
        p.res = {3: [m]}
    elif placement == 'nterm':
        p.nterm = [m]
    elif placement == 'cterm':
        p.cterm = [m]
    elif placement == 'interval':
        p.intervals = [Iv(1, 4, False, [m])]
    elif placement == 'unknown':
        p.unknown = [m]
    elif placement == 'labile':
        p.labile = [m]
    elif placement == 'static':
        p.static = [Rule([m], ['P', 'E'])]
    elif placement == 'static-nterm':
        p.static = [Rule([m], ['N-Term'])]
    return p


PLACEMENTS = ['residue', 'nterm', 'cterm', 'interval', 'unknown', 'labile', 'static', 'static-nterm']


def run(ctx):
    st = State()
    pt = install(ctx, st)
    ctx.enable_disturb(pt, 0.03)     # other legitimate library calls interleaved between cases (vf.gen.disturb)
    cfg = gp.GenCfg(min_len=1, max_len=20, letters=LETTERS, weights=dict(gp.W_MASS), p_isotope=0.0, p_mult=0.2,
                    p_res=0.3, p_interval=0.2, p_unknown=0.2, p_labile=0.25, p_static=0.3, p_charge=0.4)
    n = ctx.n(150000, 2000000)
    for i in range(n):
        p, kw, charge, adducts, iso, loss, prec, mono = gen_case(ctx.rng, cfg)
        for m in p.all_mods():
            if m.mult > 3:
                m.mult = 3
        run_case(ctx, st, pt, p, kw, charge, adducts, iso, loss, prec, mono, 'mass' if i % 3 else 'mz')
    # whole-protein inputs (1001..1400 residues: past any threshold a long-sequence path might use) with global rules;
    # numeric and formula modifications only, so that no six-decimal vocabulary row is multiplied by hundreds of copies
    cfg_long = gp.GenCfg(min_len=1001, max_len=1400, letters=LETTERS, weights=dict(gp.W_NUMFORM),
                         static_weights=dict(gp.W_NUMFORM), p_isotope=0.0, p_mult=0.1, p_res=0.003, p_interval=0.2,
                         p_unknown=0.2, p_labile=0.25, p_static=0.85, p_static_term=0.4, p_charge=0.4)
    for i in range(ctx.n(32, 640)):
        p, kw, charge, adducts, iso, loss, prec, mono = gen_case(ctx.rng, cfg_long)
        for m in p.all_mods():
            if m.mult > 3:
                m.mult = 3
        run_case(ctx, st, pt, p, kw, charge, adducts, iso, loss, prec, mono, 'mass' if i % 3 else 'mz',
                 extra_sig=('whole-protein',))
    # every Unimod entry: quick = one placement each (rotating), thorough = every placement, both modes
    ents = gp.vocab().unimod
    k = 0
    for j, e in enumerate(ents):
        places = PLACEMENTS if not ctx.quick() else [PLACEMENTS[j % len(PLACEMENTS)]]
        for pl in places:
            for mono in ((True, False) if not ctx.quick() else (j % 2 == 0,)):
                k += 1
                if not ctx.mine(k):
                    continue
                p = unimod_placements(e, pl)
                run_case(ctx, st, pt, p, {'monoisotopic': mono}, None, None, 0, 0.0, None, mono, 'mass',
                         extra_sig=('unimod-sweep', pl))
    # modifications given as Python objects rather than text: a float subclass (what numpy.float64 is), a bool-free int,
    # a Mod instance - each is the number it holds, at every placement
    class Float64(float):
        pass

    rng = ctx.rng
    for _ in range(ctx.n(300, 6000)):
        seq = ''.join(rng.choice(LETTERS) for _ in range(rng.randint(1, 12)))
        v = rng.choice([15.9949, 79.96633, -18.0106, 0.984, 229.1629, 42.0])
        val = rng.choice([Float64(v), pt.Mod(Float64(v), 1), float(v)])
        mult = 1
        where = rng.choice(['internal', 'nterm', 'cterm', 'labile', 'unknown'])
        ctx.begin({'sequence': seq, 'value': repr(v), 'python_type': type(val).__name__, 'where': where})
        try:
            with ctx.eng.suspend():
                a = pt.parse(seq)
                if where == 'internal':
                    a.add_internal_mod(rng.randrange(len(seq)), val, append=True)
                elif where == 'nterm':
                    a.add_nterm_mods(val, append=True)
                elif where == 'cterm':
                    a.add_cterm_mods(val, append=True)
                elif where == 'labile':
                    a.add_labile_mods(val, append=True)
                else:
                    a.add_unknown_mods(val, append=True)
                got = pt.mass(a) - pt.mass(seq)
            ctx.decided()
            if abs(got - v * mult) > 1e-6:
                ctx.violation('object-valued-modification-mass-differs',
                              {'sequence': seq, 'value': v, 'python_type': type(val).__name__, 'where': where,
                               'observed_shift': got})
        except Exception as ex:
            ctx.decided()
            ctx.violation('object-valued-modification-raises', {'sequence': seq, 'where': where,
                                                                'exception': f'{type(ex).__name__}: {ex}'[:200]})
        ctx.sig(('object-value', type(val).__name__, where), True)
    ctx.extra['mod_mass_decisions'] = st.mod_mass_checked
    ctx.extra['chem_mass_decisions'] = st.chem_mass_checked


def reproduce(kf_id):
    import peptacular as pt
    if kf_id == 'K2':
        obs = pt.mass('PEPTIDE/2[+2Na+]')
        p = Pep('PEPTIDE', charge=2, adducts='+2Na+')
        return abs(obs - rp.ref_mass(p)) > 1e-5
    return None


def replay(ctx, case):
    st = State()
    pt = install(ctx, st)
    p = rp.from_json(case['pep'])
    charge, adducts, iso, loss, prec, mono = case['args']
    run_case(ctx, st, pt, p, case['kwargs'], charge, adducts, iso, loss, prec, mono, case['fn'])
    for v in ctx.violations:
        print('expected (reference):', v['detail'].get('reference'), 'observed:', v['detail'].get('observed'))
