"""C07 - digested peptides keep their modifications, their mass and their place."""
from collections import Counter

from vf.gen import pep as gp
from vf.ref import atoms, chem
from vf.ref import digest as rd
from vf.ref import pep as rp
from vf.ref.pep import Pep

DECIDING = ['peptacular.digestion.digest']
RULE = ('modified proteins of length 1..40 (residue, terminal, labile, static, isotope-label modifications, intervals '
        'that do not straddle a cut) x every named protease and user regexes x missed 0..3 x semi x five return types; '
        'post-condition on digest: each peptide equals the slice of the protein specification, the five return types '
        'agree, the peptide string re-parses to the returned annotation, the subsequence search finds it at its offset, '
        'zero-missed peptides conserve mass; also the semi-/non-enzymatic sequence generators; and histories on one protein object (digest, in-place edit of a residue modification, digest again). signature = (rule kind, '
        'missed, semi, return type, protein modification placements, #peptides bucket); non-trivial = at least one '
        'modification and at least two peptides')
ASSUMPTIONS = ['the conservation clause is evaluated on proteins without position-less peptide-level annotations '
               '(labile, unknown, terminal static rules, charge); labelled water is used under isotope labels',
               'intervals straddling a cut are not generated']
LEVEL_TEXT = ('Every digest execution on generated modified proteins is compared peptide by peptide with the slice of '
              'the generator-side specification; held on the executions observed.')
TECHNIQUE = 'runtime monitoring: post-condition on digest with a structural slice model, relational checks between return types'

LETTERS = list('ACDEFGHIKLMNPQRSTVWY')
RULES = [r for r in rd.NAMED if r not in ('non-specific', 'no-cleave')] + ['([KR])', '(?=D)', 'K', '(?<=[KR])(?!P)']
RETURN_TYPES = ['str', 'annotation', 'span', 'str-span', 'annotation-span']
NAMED_FIELDS = ['sequence', 'internal', 'nterm', 'cterm', 'isotope', 'static', 'intervals']


class State:
    def __init__(self):
        self.case = None
        self.peptides = 0


def install(ctx, st: State):
    import peptacular as pt

    def digest_post(call):
        if call.depth == 0 and st.case is not None:
            st.case['result'] = list(call.result)

    ctx.eng.attach('peptacular.digestion.digest', post=digest_post, materialize=True)
    for name in ('get_left_semi_enzymatic_sequences', 'get_right_semi_enzymatic_sequences',
                 'get_non_enzymatic_sequences'):
        ctx.eng.attach('peptacular.digestion.' + name, post=digest_post, materialize=True)
    return pt


def label_water(p: Pep, mono=True) -> float:
    return atoms.comp_mass(rp.apply_labels(chem.WATER, p.isotope) if p.isotope else chem.WATER, mono)


def check_peptide(ctx, st, pt, P: Pep, text, span, ann, case, do_find=True):
    """ann: returned annotation for span=(s,e,k)"""
    from peptacular.proforma.proforma_parser import parse as parse0
    s, e = span[0], span[1]
    st.peptides += 1
    ctx.decided()
    exp = rp.expected_fields(rp.slice_pep(P, s, e))
    obs = rp.observed_fields(ann)
    d = {k: v for k, v in rp.diff_fields(exp, obs).items() if k in NAMED_FIELDS}
    if d:
        ctx.violation('peptide-differs-from-protein-slice', {'protein': text, 'span': [s, e], 'diff': d,
                                                             'peptide': ann.serialize()})
        return
    pep_text = ann.serialize()
    try:
        back = parse0(pep_text)
    except Exception as ex:
        ctx.violation('peptide-string-does-not-reparse', {'protein': text, 'span': [s, e], 'peptide': pep_text,
                                                          'exception': f'{type(ex).__name__}: {ex}'[:200]})
        return
    if hasattr(back, 'annotations') or rp.observed_fields(back) != obs:
        ctx.violation('peptide-string-reparses-to-something-else', {'protein': text, 'span': [s, e],
                                                                    'peptide': pep_text})
        return
    if not (back == ann):
        ctx.violation('reparsed-peptide-not-equal-by-library-eq', {'protein': text, 'span': [s, e],
                                                                   'peptide': pep_text})
    if do_find:
        ctx.decided()
        try:
            idx = pt.find_subsequence_indices(text, pep_text)
        except Exception as ex:
            ctx.violation('subsequence-search-raises', {'protein': text, 'peptide': pep_text,
                                                        'exception': type(ex).__name__})
            return
        if s not in idx:
            ctx.violation('peptide-not-found-at-its-offset', {'protein': text, 'peptide': pep_text, 'offset': s,
                                                              'found': idx})


def run_case(ctx, st, pt, P: Pep, rule, missed, semi, primary_rt, held=None):
    text = rp.write(P)
    case = {'pep': rp.to_json(P), 'text': text, 'rule': rule, 'missed': missed, 'semi': semi,
            'return_type': primary_rt}
    ctx.begin(case)
    results = {}
    for rt in [primary_rt] + [r for r in RETURN_TYPES if r != primary_rt]:
        st.case = {}
        try:
            r = ctx.rng.random()
            # the protein as text, as a parsed annotation, or as an equal annotation whose modification dictionary
            # and interval list are out of positional order (decoys from reverse(), programmatic construction)
            arg = text if r < 0.6 else pt.parse(text) if r < 0.75 else rp.scrambled(pt, text, ctx.rng)
            if held is not None:
                arg = held     # the caller's own protein object, digested before and edited in place since
            # a flag is a flag: semi=1 (from a config file / table column) asks for what semi=True asks for
            list(pt.digest(arg, rule, missed, (1 if semi and r < 0.3 else semi), return_type=rt))
            results[rt] = st.case.get('result')
        except Exception as ex:
            ctx.decided()
            ctx.violation('digest-raises', {'case': {k: v for k, v in case.items() if k != 'pep'},
                                            'return_type': rt, 'exception': f'{type(ex).__name__}: {ex}'[:300]})
            st.case = None
            return
        st.case = None
    if any(v is None for v in results.values()):
        ctx.inconclusive_case('digest monitor not reached')
        return
    spans = results['span']
    n_pep = len(spans)
    # the five return types describe the same peptides
    ctx.decided()
    a_sp = results['annotation-span']
    s_sp = results['str-span']
    ok = (len(a_sp) == n_pep == len(s_sp) == len(results['str']) == len(results['annotation'])
          and [tuple(x[1]) for x in a_sp] == [tuple(x) for x in spans] == [tuple(x[1]) for x in s_sp])
    if ok:
        for i in range(n_pep):
            if not (results['str'][i] == s_sp[i][0] == a_sp[i][0].serialize() == results['annotation'][i].serialize()):
                ok = False
                break
    if not ok:
        ctx.violation('return-types-disagree', {'protein': text, 'rule': rule, 'missed': missed, 'semi': semi,
                                                'spans': spans[:6], 'str': results['str'][:6]})
        return
    for ann, sp in a_sp:
        check_peptide(ctx, st, pt, P, text, sp, ann, case)
    # mass conservation over the zero-missed partition
    if (missed == 0 and not semi and not P.labile and not P.unknown and P.charge is None and n_pep >= 1
            and not any(t in ('N-Term', 'C-Term') for r in P.static for t in r.targets)):
        part = sorted(tuple(x) for x in spans)
        if part[0][0] == 0 and part[-1][1] == len(P.seq) and all(a[1] == b[0] for a, b in zip(part, part[1:])):
            try:
                total = sum(pt.mass(x) for x in results['str'])
                whole = pt.mass(text)
            except Exception as ex:
                ctx.note('conservation_mass_raises:' + type(ex).__name__)
            else:
                ctx.decided()
                expect = whole + (n_pep - 1) * label_water(P)
                if abs(total - expect) > 1e-6 * max(1, n_pep) + 1e-7 * len(P.all_mods()):
                    ctx.violation('zero-missed-peptides-do-not-conserve-mass',
                                  {'protein': text, 'rule': rule, 'sum_of_peptides': total,
                                   'protein_plus_water_per_cut': expect, 'peptides': results['str'][:8]})
    kind = 'named' if rule in rd.NAMED else 'user'
    ctx.sig((kind, missed, semi, primary_rt, P.features(), min(n_pep, 6)), bool(P.all_mods() or P.isotope) and n_pep >= 2)
    ctx.sample({k: v for k, v in case.items() if k != 'pep'})


def drop_straddling(P: Pep, sites):
    inner = [s for s in sites if 0 < s < len(P.seq)]
    P.intervals = [iv for iv in P.intervals if not any(iv.start < s < iv.end for s in inner)]


def run_generators(ctx, st, pt, P: Pep):
    text = rp.write(P)
    n = len(P.seq)
    for fn, spans in (('get_left_semi_enzymatic_sequences', [(0, e) for e in range(n - 1, 0, -1)]),
                      ('get_right_semi_enzymatic_sequences', [(s, n) for s in range(1, n)]),
                      ('get_non_enzymatic_sequences', [(s, e) for s in range(n) for e in range(s + 1, n + 1)
                                                       if e - s <= n - 1])):
        ctx.begin({'pep': rp.to_json(P), 'text': text, 'generator': fn})
        st.case = {}
        try:
            list(getattr(pt, fn)(text, return_type='annotation-span'))
            res = st.case.get('result')
        except Exception as ex:
            ctx.decided()
            ctx.violation('generator-raises', {'function': fn, 'protein': text,
                                               'exception': f'{type(ex).__name__}: {ex}'[:200]})
            st.case = None
            continue
        st.case = None
        if res is None:
            ctx.inconclusive_case('generator monitor not reached')
            continue
        ctx.decided()
        got = Counter((sp[0], sp[1]) for _a, sp in res)
        if got != Counter(spans):
            ctx.violation('generator-spans-differ', {'function': fn, 'protein': text,
                                                     'missing': sorted((Counter(spans) - got).keys())[:6],
                                                     'extra': sorted((got - Counter(spans)).keys())[:6]})
            continue
        for ann, sp in res:
            check_peptide(ctx, st, pt, P, text, sp, ann, None, do_find=False)
        ctx.sig(('generator', fn, P.features()), bool(P.all_mods()))


def cfg(max_len=40, letters=None):
    return gp.GenCfg(min_len=1, max_len=max_len, letters=letters or LETTERS,
                     weights={'int': 2, 'float': 3, 'formula': 2, 'unimod-name': 3, 'unimod-acc': 1, 'glycan': 1},
                     p_res=0.15, p_unknown=0.1, p_interval=0.2, p_charge=0.0, p_isotope=0.15, p_static=0.25,
                     p_static_term=0.2, p_labile=0.15, p_tag=0.03, p_alt=0.03, p_mult=0.08,
                     labels=['13C', '15N', '18O', 'D'])


def run(ctx):
    st = State()
    pt = install(ctx, st)
    ctx.enable_disturb(pt, 0.03)     # other legitimate library calls interleaved between cases (vf.gen.disturb)
    rng = ctx.rng
    big, small = cfg(40), cfg(12)
    # tandem repeats / low-complexity proteins: a peptide occurs at several, overlapping offsets of its protein
    rep = [cfg(14, list('AK')), cfg(16, list('KRE')), cfg(12, list('KDP'))]
    for i in range(ctx.n(10000, 150000)):
        P = gp.gen_pep(rng, rng.choice(rep) if i % 5 == 4 else small if i % 2 else big)
        rule = rng.choice(RULES)
        semi = rng.random() < 0.3
        if semi:
            P.intervals = []
        else:
            drop_straddling(P, rd.sites(P.seq, rule))
        run_case(ctx, st, pt, P, rule, rng.randint(0, 3), semi, rng.choice(RETURN_TYPES))
    # one protein object held by the caller: digested, edited in place (a modification moved to another residue or
    # replaced - the number of modified residues stays the same), digested again; every digest answers for the object
    # as it is at that moment
    for _ in range(ctx.n(1200, 20000)):
        P = gp.gen_pep(rng, small)
        P.intervals = []
        if not P.res or len(P.res) >= len(P.seq):
            continue
        rule = rng.choice(RULES)
        try:
            with ctx.eng.suspend():
                held = pt.parse(rp.write(P))
        except Exception:
            continue
        rt = rng.choice(RETURN_TYPES)
        run_case(ctx, st, pt, P, rule, rng.randint(0, 2), False, rt, held=held)
        for _step in range(rng.randint(1, 2)):
            i = rng.choice(sorted(P.res))
            P = P.copy()
            if rng.random() < 0.6:
                j = rng.choice([k for k in range(len(P.seq)) if k not in P.res])
                with ctx.eng.suspend():
                    moved = held.pop_internal_mod(i)
                    held.add_internal_mod(j, moved)
                P.res[j] = P.res.pop(i)
            else:
                with ctx.eng.suspend():
                    held.add_internal_mod(i, 'Methyl')          # append=False: replaces what the residue carried
                P.res[i] = [rp.M('Methyl', kind='unimod-name', named=True, mono=14.01565, avg=14.0266)]
            run_case(ctx, st, pt, P, rule, rng.randint(0, 2), False, rng.choice(RETURN_TYPES), held=held)
    # protein-sized inputs (257..300 residues, past the small-integer cache and any block size), terminal modifications
    longc = gp.GenCfg(min_len=257, max_len=300, letters=LETTERS, weights={'int': 2, 'float': 2, 'unimod-name': 3},
                      p_res=0.03, p_unknown=0.0, p_interval=0.0, p_charge=0.0, p_isotope=0.15, p_static=0.2,
                      p_static_term=0.2, p_labile=0.1, p_nterm=0.7, p_cterm=0.9, p_tag=0, p_alt=0, p_mult=0.05,
                      labels=['13C', '15N'])
    for _ in range(ctx.n(32, 600)):
        P = gp.gen_pep(rng, longc)
        run_case(ctx, st, pt, P, rng.choice(['trypsin', 'lys-c', 'asp-n']), rng.randint(0, 1), False,
                 rng.choice(RETURN_TYPES))
    for _ in range(ctx.n(600, 20000)):
        P = gp.gen_pep(rng, small)
        P.intervals = []
        run_generators(ctx, st, pt, P)
    ctx.extra['peptides_checked'] = st.peptides


def replay(ctx, case):
    st = State()
    pt = install(ctx, st)
    P = rp.from_json(case['pep'])
    if 'generator' in case:
        run_generators(ctx, st, pt, P)
    else:
        run_case(ctx, st, pt, P, case['rule'], case['missed'], case['semi'], case['return_type'])
