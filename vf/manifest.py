"""Regenerates MANIFEST.json from the check modules that exist (python -m vf.manifest)."""
import importlib
import json
import os

import vf

ALL = [f'C{i:02d}' for i in range(1, 21)]
PY = '/venv/bin/python'
BASELINE = ('cd /repo && /venv/bin/python -m pytest -ra -q -p no:cacheprovider --timeout=900 '
            '--continue-on-collection-errors')


def main():
    checks, na = [], []
    for pid in ALL:
        try:
            mod = importlib.import_module(f'vf.checks.{pid.lower()}')
        except ImportError:
            na.append({'property_id': pid, 'reason': 'runtime monitor for this property is designed (DESIGN.md '
                                                     'section 5) but not built yet; not claimed'})
            continue
        if getattr(mod, 'NOT_CLAIMED', None):
            na.append({'property_id': pid, 'reason': mod.NOT_CLAIMED})
            continue
        checks.append({
            'property_id': pid,
            'quick_cmd': f'PEPTACULAR_VERIF=1 {PY} -m vf.run {pid} --tier quick',
            'thorough_cmd': f'PEPTACULAR_VERIF=1 {PY} -m vf.run {pid} --tier thorough',
            'evidence_file': f'/verif/evidence/{pid}.json',
            'replay_cmd_template': f'{PY} -m vf.replay {{path}}',
            'engine': 'vf',
            'level_claimed': {
                'category': 'exploration',
                'text': getattr(mod, 'LEVEL_TEXT', 'held on the executions observed by the runtime monitors'),
                'design_ref': f'DESIGN.md section 5, {pid}',
            },
            'level_note': getattr(mod, 'LEVEL_NOTE', 'trusted base: CPython, regex, icontract decorator mechanics, '
                                                     'the reference models under vf/ref, the bundled vocabulary data'),
            'technique': getattr(mod, 'TECHNIQUE', 'runtime monitoring: contracts on the live functions + '
                                                   'reference-model oracle'),
        })
    manifest = {
        'version': 1,
        'setup_cmd': f'cd /verif && {PY} -c "import vf" && {PY} -m compileall -q vf',
        'hooks': {
            'guard': 'PEPTACULAR_VERIF',
            'enable': 'no in-repository hook: PEPTACULAR_VERIF=1 switches on the harness-side attachment '
                      '(icontract contracts, rebinding, sys.monitoring observers) applied from /verif to the '
                      'working tree imported through the editable install',
            'baseline_off_cmd': BASELINE,
            'source_commits': [],
            'add_only': True,
        },
        'engines': [{
            'name': 'vf', 'path': '/verif/vf', 'serves_properties': [c['property_id'] for c in checks],
            'kind_free_text': 'runtime monitoring: icontract contracts attached to the real functions (with '
                              'rebinding of from-imports so nested calls are observed), independent reference '
                              'models as oracles, sys.monitoring RAISE/LINE observers, sharded workloads',
        }],
        'checks': checks,
        'not_applicable': na,
        'notes': 'Exit codes: 0 held on everything observed (KNOWN-FINDING lines for listed open findings), '
                 '1 VIOLATION, 2 INCONCLUSIVE. known_findings.json lists open findings and fixed: entries.',
    }
    with open(os.path.join(vf.ROOT, 'MANIFEST.json'), 'w') as f:
        json.dump(manifest, f, indent=1)
    print(f'{len(checks)} checks, {len(na)} not claimed')


if __name__ == '__main__':
    main()
