"""Models of reverse / shift / sort / slice / split acting on field dumps (rp.observed_fields shape).

They work on the dump of the *argument*, so the same oracle decides top-level calls and the calls the
library makes to itself (digest -> slice, fragment -> split, ...).
"""
import copy
from typing import List, Optional, Tuple


def _base(d: dict) -> dict:
    return copy.deepcopy(d)


def contiguous(idx: List[int]) -> Optional[Tuple[int, int]]:
    if not idx:
        return None
    s = sorted(idx)
    if s == list(range(s[0], s[0] + len(s))):
        return s[0], s[-1] + 1
    return None


def permute(d: dict, new_pos_of: List[int], keep_intervals: bool) -> Optional[dict]:
    """new_pos_of[i] = position of original residue i in the result. Intervals are mapped residue-wise;
    returns None when an interval would not be contiguous (no representation)."""
    n = len(d['sequence'])
    out = _base(d)
    seq = [''] * n
    for i, ch in enumerate(d['sequence']):
        seq[new_pos_of[i]] = ch
    out['sequence'] = ''.join(seq)
    if d['internal']:
        out['internal'] = {new_pos_of[i]: v for i, v in d['internal'].items()}
        out['internal'] = dict(sorted(out['internal'].items()))
    if d['intervals'] and keep_intervals:
        ivs = []
        for (s, e, amb, mods) in d['intervals']:
            c = contiguous([new_pos_of[i] for i in range(s, e)])
            if c is None:
                return None
            ivs.append((c[0], c[1], amb, mods))
        out['intervals'] = sorted(ivs, key=repr)
    return out


def reverse(d: dict, swap_terms: bool = False) -> dict:
    n = len(d['sequence'])
    out = permute(d, [n - 1 - i for i in range(n)], True)
    if swap_terms:
        out['nterm'], out['cterm'] = d['cterm'], d['nterm']
    return out


def shift(d: dict, k: int) -> Optional[dict]:
    n = len(d['sequence'])
    eff = k % n
    return permute(d, [(i - eff) % n for i in range(n)], True)


def sort_residues(d: dict) -> dict:
    n = len(d['sequence'])
    order = sorted(range(n), key=lambda x: d['sequence'][x])   # stable
    new_pos = [0] * n
    for new, old in enumerate(order):
        new_pos[old] = new
    out = permute(d, new_pos, False)
    return out


def cuts_interval(d: dict, i: int, j: int) -> bool:
    """True when a slice end falls strictly inside an interval."""
    for (s, e, _a, _m) in (d['intervals'] or []):
        if s < i < e or s < j < e:
            return True
    return False


def slice_(d: dict, i: int, j: int) -> dict:
    n = len(d['sequence'])
    out = _base(d)
    out['sequence'] = d['sequence'][i:j]
    if d['internal']:
        out['internal'] = {k - i: v for k, v in d['internal'].items() if i <= k < j} or None
    if d['intervals']:
        out['intervals'] = sorted(((s - i, e - i, a, m) for (s, e, a, m) in d['intervals'] if s >= i and e <= j),
                                  key=repr) or None
    if i > 0:
        out['nterm'] = None
    if j < n:
        out['cterm'] = None
    return out


def residue_multiset(d: dict):
    """multiset of (residue letter, its own modifications)"""
    from collections import Counter
    return Counter((ch, repr((d['internal'] or {}).get(i))) for i, ch in enumerate(d['sequence']))
