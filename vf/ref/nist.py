"""Independent reader of the bundled NIST 'Atomic Weights and Isotopic Compositions' text (a data file, not code).

Gives, for every element of the table, the monoisotopic mass (most abundant isotope) and the average mass
(sum of isotope mass x abundance - the library's documented definition), and the mass of every single isotope
('13C', '82Se', 'D', 'T').  Shares no code with peptacular; used where the frozen 18-element table of vf.ref.atoms does
not reach (formulas over the whole periodic table)."""
import os
import re
from functools import lru_cache
from typing import Dict, Optional, Tuple

from vf.ref.atoms import ELECTRON, PROTON, NEUTRON


def _num(text: str) -> Optional[float]:
    text = text.strip()
    if not text:
        return None
    m = re.match(r'^([0-9.]+)', text)
    return float(m.group(1)) if m else None


@lru_cache(maxsize=1)
def table() -> Tuple[Dict[str, float], Dict[str, float], Dict[str, float]]:
    """(monoisotopic by element, average by element, isotope mass by label e.g. '13C')"""
    import importlib.util
    spec = importlib.util.find_spec('peptacular')
    path = os.path.join(os.path.dirname(spec.origin), 'data', 'chem.txt')
    by_z: Dict[int, list] = {}
    cur: Dict[str, str] = {}
    with open(path, encoding='utf-8') as f:
        for line in list(f) + ['']:
            line = line.strip()
            if not line:
                if 'Atomic Number' in cur:
                    by_z.setdefault(int(cur['Atomic Number']), []).append(
                        (cur.get('Atomic Symbol', ''), int(cur['Mass Number']), _num(cur.get('Relative Atomic Mass', '')),
                         _num(cur.get('Isotopic Composition', ''))))
                cur = {}
                continue
            if '=' in line:
                k, v = line.split('=', 1)
                cur[k.strip()] = v.strip()
    mono, avg, iso = {}, {}, {}
    for z, rows in by_z.items():
        sym = 'H' if z == 1 else rows[0][0]
        for s, a, m, ab in rows:
            if m is not None:
                iso[f'{a}{sym}'] = m
        iso.update({'D': iso.get('2H'), 'T': iso.get('3H')} if z == 1 else {})
        nat = [(m, ab) for _s, _a, m, ab in rows if m is not None and ab]
        if nat:
            mono[sym] = max(nat, key=lambda t: t[1])[0]
            avg[sym] = sum(m * ab for m, ab in nat)
    return mono, avg, iso


def comp_mass(comp: dict, monoisotopic: bool = True) -> Optional[float]:
    """None when a key is not in the table (or has no natural abundances)"""
    mono, avg, iso = table()
    total = 0.0
    for k, v in comp.items():
        if k in ('e', 'p', 'n'):
            total += v * {'e': ELECTRON, 'p': PROTON, 'n': NEUTRON}[k]
        elif k in iso and (k[0].isdigit() or k in ('D', 'T')):
            total += v * iso[k]
        elif k in mono:
            total += v * (mono[k] if monoisotopic else avg[k])
        else:
            return None
    return total
