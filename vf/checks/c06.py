"""C06 - digestion returns exactly the peptides the cleavage rules define."""
import itertools
from collections import Counter

from vf.ref import digest as rd

DECIDING = ['peptacular.digestion.digest', 'peptacular.spans.build_spans', 'peptacular.digestion.get_cleavage_sites']
SHARDS = {'quick': 16, 'thorough': 16}
TIMEOUT = {'quick': 1500, 'thorough': 14400}
EXHAUSTIVE = {
    'quick': 'build_spans over every site layout (subset of 0..n) for n<=8 x missed 0..4 x semi x min/max in '
             '{None,1..8}; get_cleavage_sites over every protein of length 0..5 on {K,R,P,D,E,A} x 19 named proteases '
             '+ 18 user regexes (incl. character-class ranges)',
    'thorough': 'build_spans over every site layout for n<=12 x missed 0..4 x semi x min/max in {None,1..12}; '
                'get_cleavage_sites over every protein of length 0..8 on {K,R,P,D,E,A} x 19 named proteases + 18 user '
                'regexes; digest over every protein of length 0..6 x rule sets x missed 0..2 x semi x 4 length windows'}
RULE = ('post-conditions on get_cleavage_sites (independent site finder: named proteases as residue predicates, user '
        'regexes by anchored match at every position), build_spans (set model; also the calls digest makes), digest / '
        'digest_from_config / sequential_digest (composition of both, partial digestion, sorting, five return types). '
        'signature = (function, rule kinds, n bucket, missed, semi, bounds class, complete, return type, #sites bucket); '
        'non-trivial = at least one cleavage site strictly inside the protein')
ASSUMPTIONS = ['regexes that mix a look-around alternative with a consuming one are exercised through get_cleavage_sites / digest '
               'only, not in the sequential-equals-simultaneous clause (their reading of a fragment start depends on the '
               'residue before it)',
               'the extra undigested span of partial digestion is accepted with the count the library gives it (0)',
               'for build_spans called directly with every position a site and WITHOUT the non_specific keyword the expected '
               'result is ambiguous (non-specific rule or not); such layouts are decided when the keyword is given and at '
               'the digest level, where the rule is known']
LEVEL_TEXT = ('Every get_cleavage_sites/build_spans/digest execution is compared with a set-comprehension model; the '
              'small sub-spaces named in exhaustive_subspace are enumerated completely; held on the executions observed.')
TECHNIQUE = 'runtime monitoring: post-conditions with an independent set model, exhaustive small-scope enumeration'

ALPHA6 = 'KRPDEA'
ALL20 = 'ACDEFGHIKLMNPQRSTVWY'
NAMED = [k for k in rd.NAMED]
USER_ZERO = ['(?<=K)', '(?=D)', '(?<=[KR])(?!P)', '(?=K)|(?<=K)', '(?<=E)|(?<=D)', '(?<=[K-R])', '(?=[D-F])']
USER_CONSUMING = ['([KR])', 'K', '[DE]', 'KP', '([K-R])', '[^A-Q]']
# one regex whose alternatives mix both styles: every match is read by its own width (zero-width -> its position,
# consuming -> start + 1)
USER_MIXED = ['(?=D)|([KR])', '([KR])|(?=D)', '(?<=E)|K', 'K(?=A)|(?=P)', '(?<=[DE])|[FWY]']
ALL_RULES = NAMED + USER_ZERO + USER_CONSUMING + USER_MIXED
RETURN_TYPES = ['str', 'annotation', 'span', 'str-span', 'annotation-span']


def compiled(rng, pattern: str):
    """the user regex as a compiled pattern, optionally compiled with flags under which it means the same rule"""
    import regex
    r = rng.random()
    if r < 0.4:
        return regex.compile(pattern)
    if r < 0.7:
        return regex.compile(pattern.lower(), regex.IGNORECASE)
    return regex.compile(' ' + pattern + "   # the caller's comment", regex.VERBOSE)


class State:
    def __init__(self):
        self.case = None
        self.bs_direct = 0
        self.bs_nested = 0
        self.sites_checked = 0
        self.ambiguous_layouts = 0


def install(ctx, st: State):
    import peptacular as pt

    def sites_post(call):
        seq = call.arg(0, 'sequence')
        rule = call.arg(1, 'enzyme_regex')
        if not isinstance(seq, str):
            seq = seq.sequence
        elif not seq.isalpha() and seq != '':
            return
        if not isinstance(rule, str):
            return
        st.sites_checked += 1
        ctx.decided()
        exp = rd.sites(seq, rule)
        obs = list(call.result)
        if obs != exp:
            ctx.violation('cleavage-sites-differ', {'protein': seq, 'rule': rule, 'observed': obs, 'expected': exp})

    def bs_post(call):
        n = call.arg(0, 'max_index')
        sites = list(call.arg(1, 'enzyme_sites'))
        missed = call.arg(2, 'missed_cleavages')
        min_len = call.arg(3, 'min_len', None)
        max_len = call.arg(4, 'max_len', None)
        semi = call.arg(5, 'semi', False)
        obs = list(call.result)
        all_sites = len(set(sites)) == n + 1
        c = st.case
        nonspec = None
        if call.depth == 0 and call.kwargs.get('non_specific') is not None:
            nonspec = bool(call.kwargs['non_specific'])      # the caller says which rule the sites come from
            st.bs_direct += 1
        elif call.depth > 0 and c is not None and c.get('nonspecific') is not None:
            nonspec = c['nonspecific']
            st.bs_nested += 1
        else:
            st.bs_direct += 1
        if all_sites and nonspec is None:
            st.ambiguous_layouts += 1
            return
        ctx.decided()
        if nonspec:
            exp = Counter(rd.non_specific_spans(n, min_len, max_len))
        else:
            exp = Counter(rd.spans(n, sites, missed, semi, min_len, max_len))
        o = Counter(obs)
        if o != exp:
            kf = None
            if all_sites and not nonspec and o == Counter(rd.non_specific_spans(n, min_len, max_len)):
                kf = 'K5'
            dup = [k for k, v in o.items() if v > 1][:5]
            ctx.violation('build_spans-differs-from-model',
                          {'n': n, 'sites': sorted(set(sites)), 'missed': missed, 'semi': semi, 'min_len': min_len,
                           'max_len': max_len, 'missing': sorted((exp - o).keys())[:8],
                           'extra': sorted((o - exp).keys())[:8], 'duplicates': dup, 'depth': call.depth}, kf=kf)

    def digest_post(call):
        # the result is compared by the harness (it needs the case's return type); here the monitor records the
        # materialised result so that what is compared is exactly what the contract observed
        if call.depth == 0 and st.case is not None:
            st.case['result'] = list(call.result)

    ctx.eng.attach('peptacular.digestion.digest', post=digest_post, materialize=True)
    ctx.eng.attach('peptacular.digestion.digest_from_config', post=digest_post, materialize=True)
    ctx.eng.attach('peptacular.digestion.sequential_digest', post=digest_post, materialize=True)
    ctx.eng.attach('peptacular.digestion.get_cleavage_sites', post=sites_post, materialize=True)
    ctx.eng.attach('peptacular.spans.build_spans', post=bs_post, materialize=True)
    return pt


def expected_digest(protein, rules, missed, semi, min_len, max_len, complete):
    n = len(protein)
    nonspec = any(r in rd.NON_SPECIFIC for r in rules)
    site_list = []
    for r in rules:
        site_list.extend(rd.sites(protein, r))
    if nonspec:
        exp = set(rd.non_specific_spans(n, min_len, max_len))
    else:
        exp = rd.spans(n, site_list, missed, semi, min_len, max_len)
    emu = None
    if not nonspec and len(set(site_list)) == n + 1:
        emu = set(rd.non_specific_spans(n, min_len, max_len))     # K5: shortcut taken for a specific rule
    if not complete:
        exp = exp | {(0, n, 0)}
        if emu is not None:
            emu = emu | {(0, n, 0)}
    return exp, emu, nonspec, site_list


def run_digest(ctx, st, pt, protein, rules, missed=0, semi=False, min_len=None, max_len=None, complete=True,
               return_type='span', sort_output=True, via='digest', rule_obj=None):
    case = {'protein': protein, 'rules': list(rules), 'missed': missed, 'semi': semi, 'min_len': min_len,
            'max_len': max_len, 'complete': complete, 'return_type': return_type, 'sort_output': sort_output,
            'via': via}
    ctx.begin(case)
    exp, emu, nonspec, site_list = expected_digest(protein, rules, missed, semi, min_len, max_len, complete)
    st.case = {'nonspecific': nonspec}
    rule_arg = rules[0] if len(rules) == 1 and ctx.rng.random() < 0.5 else list(rules)
    if rule_obj is None and ctx.rng.random() < 0.08:
        # user regexes handed over as compiled patterns (in a list), with the flags a caller may have compiled them with:
        # the same rule as its plain spelling
        rule_arg = [compiled(ctx.rng, r) if r not in rd.NAMED else r for r in rules]
    if rule_obj is not None:        # the caller's own list (or configuration) object, reused and edited between calls
        rule_arg = rule_obj
    try:
        if rule_obj is not None and via == 'config':
            res = list(pt.digest_from_config(protein, rule_obj, min_len, max_len, return_type, sort_output))
        elif via == 'digest':
            res = list(pt.digest(protein, rule_arg, missed, semi, min_len, max_len, complete, return_type, sort_output))
        else:
            cfg = pt.EnzymeConfig(regex=rule_arg, missed_cleavages=missed, semi_enzymatic=semi,
                                  complete_digestion=complete)
            res = list(pt.digest_from_config(protein, cfg, min_len, max_len, return_type, sort_output))
    except Exception as ex:
        ctx.decided()
        ctx.violation('digest-raises', {'case': case, 'exception': f'{type(ex).__name__}: {ex}'[:300]})
        st.case = None
        return
    observed = st.case.get('result')
    st.case = None
    ctx.decided()
    if observed is None:
        ctx.inconclusive_case('digest monitor not reached')
        return
    res = observed
    n = len(protein)
    # project the result on spans
    spans, bad_seq = [], None
    for item in res:
        if return_type == 'span':
            spans.append(tuple(item))
        elif return_type in ('str-span', 'annotation-span'):
            seq, sp = item
            spans.append(tuple(sp))
            s = seq if isinstance(seq, str) else seq.sequence
            if s != protein[sp[0]:sp[1]]:
                bad_seq = (s, sp)
        else:
            spans.append(item if isinstance(item, str) else item.sequence)
    if bad_seq:
        ctx.violation('peptide-not-the-span-it-is-paired-with', {'case': case, 'peptide': bad_seq[0],
                                                                 'span': bad_seq[1]})
    if return_type in ('str', 'annotation'):
        want = Counter(protein[s:e] for (s, e, _k) in exp)
        got = Counter(spans)
        if got != want:
            kf = 'K5' if emu is not None and got == Counter(protein[s:e] for (s, e, _k) in emu) else None
            ctx.violation('digest-peptides-differ-from-model',
                          {'case': case, 'missing': sorted((want - got).keys())[:6],
                           'extra': sorted((got - want).keys())[:6], 'sites': sorted(set(site_list))}, kf=kf)
    else:
        got = Counter(spans)
        if got != Counter(exp):
            kf = 'K5' if emu is not None and got == Counter(emu) else None
            dup = [k for k, v in got.items() if v > 1][:5]
            ctx.violation('digest-spans-differ-from-model',
                          {'case': case, 'missing': sorted((Counter(exp) - got).keys())[:8],
                           'extra': sorted((got - Counter(exp)).keys())[:8], 'duplicates': dup,
                           'sites': sorted(set(site_list))}, kf=kf)
        elif sort_output and spans != sorted(spans):
            ctx.violation('digest-output-not-sorted', {'case': case, 'observed': spans[:10]})
    inner = len({x for x in site_list if 0 < x < n})
    ctx.sig((via, sorted({'nonspec' if r in rd.NON_SPECIFIC else 'named' if r in rd.NAMED else
                          'zero-width' if r in USER_ZERO else 'mixed' if r in USER_MIXED else 'consuming'
                          for r in rules}), len(rules),
             min(n, 12) if n < 12 else '12+', missed, semi, min_len is not None, max_len is not None, complete,
             return_type, sort_output, min(inner, 4)), inner > 0)
    if ctx.cases % 997 == 0:
        ctx.sample(case)


def run_sequential(ctx, st, pt, protein, rule_sets, min_len, max_len, return_type):
    case = {'protein': protein, 'stages': rule_sets, 'min_len': min_len, 'max_len': max_len,
            'return_type': return_type, 'via': 'sequential_digest'}
    ctx.begin(case)
    cfgs = [pt.EnzymeConfig(regex=list(r), missed_cleavages=0, semi_enzymatic=False, complete_digestion=True)
            for r in rule_sets]
    all_rules = [x for r in rule_sets for x in r]
    exp, emu, nonspec, site_list = expected_digest(protein, all_rules, 0, False, min_len, max_len, True)
    st.case = {'nonspecific': None}   # nested build_spans calls see stage fragments: decided by the direct model
    try:
        res = list(pt.sequential_digest(protein, cfgs, min_len, max_len, return_type))
        res = st.case.get('result', res)
        st.case = None
    except Exception as ex:
        ctx.decided()
        ctx.violation('sequential-digest-raises', {'case': case, 'exception': f'{type(ex).__name__}: {ex}'[:300]})
        return
    ctx.decided()
    if return_type == 'span':
        got = Counter((s, e) for (s, e, _k) in res)
    elif return_type in ('str-span', 'annotation-span'):
        got = Counter((sp[0], sp[1]) for _x, sp in res)
    else:
        got = Counter(x if isinstance(x, str) else x.sequence for x in res)
        want = Counter(protein[s:e] for (s, e, _k) in exp)
        if got != want:
            ctx.violation('sequential-differs-from-simultaneous',
                          {'case': case, 'missing': sorted((want - got).keys())[:6],
                           'extra': sorted((got - want).keys())[:6]},
                          kf='K5' if (lambda e: e is not None and Counter(
                              protein[a:b] for (a, b), c_ in e.items() for _ in range(c_)) == got)(
                              emulated_sequential(protein, rule_sets, min_len, max_len)) else None)
        ctx.sig(('sequential', len(rule_sets), return_type, min_len is not None, max_len is not None), True)
        return
    want = Counter((s, e) for (s, e, _k) in exp)
    if got != want:
        ctx.violation('sequential-differs-from-simultaneous',
                      {'case': case, 'missing': sorted((want - got).keys())[:6], 'extra': sorted((got - want).keys())[:6]},
                      kf='K5' if emulated_sequential(protein, rule_sets, min_len, max_len) == got else None)
    ctx.sig(('sequential', len(rule_sets), return_type, min_len is not None, max_len is not None), True)


def emulated_sequential(protein, rule_sets, min_len, max_len):
    """K5 emulation for sequential digestion: stage by stage with the model, except that a fragment in which every
    position is a site of the stage's (specific) rules is expanded by the non-specific shortcut. Returns the
    multiset of (start, end) or None when the shortcut never fires."""
    frags = [(0, len(protein))]
    fired = False
    for rules in rule_sets:
        nxt = []
        for (a, b) in frags:
            f = protein[a:b]
            s = set()
            for r in rules:
                s.update(rd.sites(f, r))
            if len(s) == len(f) + 1:
                fired = True
                sp = rd.non_specific_spans(len(f), min_len, None)
            else:
                sp = sorted(rd.spans(len(f), s, 0, False, min_len, None))
            nxt.extend((a + x, a + y) for (x, y, _k) in sp)
        frags = nxt
    if not fired:
        return None
    if max_len is not None:
        frags = [(a, b) for (a, b) in frags if b - a <= max_len]
    return Counter(frags)


def bounds(rng, n_max):
    lo = rng.choice([None, None, 1, 2, 3, rng.randint(1, max(1, n_max))])
    hi = rng.choice([None, None, rng.randint(1, max(1, n_max)), 12])
    return lo, hi


def run(ctx):
    st = State()
    pt = install(ctx, st)
    ctx.enable_disturb(pt, 0.002)     # other legitimate library calls interleaved between cases (vf.gen.disturb)
    quick = ctx.quick()
    rng = ctx.rng
    k = 0
    # ---- A. build_spans over every site layout ----------------------------------------------------------
    nmax = 8 if quick else 12
    lens = [None] + list(range(1, nmax + 1))
    for n in range(0, nmax + 1):
        for mask in range(0, 1 << (n + 1)):
            k += 1
            if not ctx.mine(k):
                continue
            sites = [i for i in range(n + 1) if mask >> i & 1]
            for missed in range(0, 5):
                for semi in (False, True):
                    for lo in lens:
                        if lo is not None and lo > n:
                            continue
                        for hi in lens:
                            if hi is not None and (hi > n or (lo is not None and hi < lo)):
                                continue
                            ctx.begin({'via': 'build_spans', 'n': n, 'sites': sites, 'missed': missed, 'semi': semi,
                                       'min_len': lo, 'max_len': hi})
                            try:
                                if len(set(sites)) == n + 1 or rng.random() < 0.02:
                                    # told which rule the sites come from (every position a site is not ambiguous then)
                                    list(pt.build_spans(n, list(sites), missed, lo, hi, semi,
                                                        non_specific=rng.random() < 0.3))
                                else:
                                    list(pt.build_spans(n, list(sites), missed, lo, hi, semi))
                            except Exception as ex:
                                ctx.violation('build_spans-raises', {'exception': f'{type(ex).__name__}: {ex}'[:200]})
            inner = len([s for s in sites if 0 < s < n])
            ctx.sig(('build_spans', n, min(inner, 5), 0 in sites, n in sites), inner > 0)
    # ---- B. site finder over every small protein -------------------------------------------------------
    lmax = 5 if quick else 8
    for n in range(0, lmax + 1):
        for tup in itertools.product(ALPHA6, repeat=n):
            k += 1
            if not ctx.mine(k):
                continue
            prot = ''.join(tup)
            for r in ALL_RULES:
                ctx.begin({'via': 'get_cleavage_sites', 'protein': prot, 'rule': r})
                try:
                    list(pt.get_cleavage_sites(prot, r))
                except Exception as ex:
                    ctx.violation('get_cleavage_sites-raises', {'protein': prot, 'rule': r,
                                                                'exception': type(ex).__name__})
            if k % 50 == 0:
                ctx.sig(('sites', n, prot.count('K') > 0, prot.count('P') > 0, prot.count('D') > 0), n > 1)
    # ---- C. digest cross product on small proteins ------------------------------------------------------
    dmax = 4 if quick else 6
    rule_sets = [[r] for r in ALL_RULES] + [['trypsin', 'asp-n'], ['([KR])', '(?=D)'], ['lys-c', 'glu-c', 'arg-c'],
                                           ['K', '[DE]'], ['non-specific', 'trypsin']]
    windows = [(None, None), (2, None), (None, 3), (2, 4)]
    for n in range(0, dmax + 1):
        for tup in itertools.product(ALPHA6, repeat=n):
            k += 1
            if not ctx.mine(k):
                continue
            prot = ''.join(tup)
            for rs in rule_sets:
                if quick and rng.random() < 0.6:
                    continue
                for missed in (0, 1, 2):
                    for semi in (False, True):
                        lo, hi = rng.choice(windows)
                        run_digest(ctx, st, pt, prot, rs, missed, semi, lo, hi, rng.random() < 0.8,
                                   'span' if rng.random() < 0.7 else rng.choice(RETURN_TYPES), rng.random() < 0.8,
                                   'digest' if rng.random() < 0.85 else 'config')
    # ---- D. random proteins -------------------------------------------------------------------------------
    for _ in range(ctx.n(60000, 600000)):
        n = rng.randint(0, 60) if rng.random() < 0.5 else rng.randint(0, 14)
        letters = ALL20 if rng.random() < 0.6 else 'KRPDEAFWYL'
        prot = ''.join(rng.choice(letters) for _ in range(n))
        rs = rng.sample(ALL_RULES, rng.choice([1, 1, 2, 3]))
        lo, hi = bounds(rng, min(n, 12))
        run_digest(ctx, st, pt, prot, rs, rng.randint(0, 4), rng.random() < 0.4, lo, hi, rng.random() < 0.75,
                   rng.choice(RETURN_TYPES), rng.random() < 0.7, 'digest' if rng.random() < 0.8 else 'config')
    # ---- E. three to five rules whose site sets overlap (the same sites found by several rules, a rule given twice),
    #         short site-rich proteins: the union of sites, whatever the order of the rule list
    families = [['trypsin', 'trypsin/P', 'lys-c', 'arg-c', '([KR])', 'K'], ['asp-n', 'glu-c', '(?=D)', '[DE]']]
    for _ in range(ctx.n(12000, 120000)):
        n = rng.randint(1, 9)
        prot = ''.join(rng.choice('KKRDEAP') for _ in range(n))
        fam = rng.choice(families)
        rs = [rng.choice(fam) for _ in range(rng.randint(2, 4))]
        rs.append(rng.choice([r for r in ALL_RULES if r not in rd.NON_SPECIFIC]))
        rng.shuffle(rs)
        run_digest(ctx, st, pt, prot, rs, rng.randint(0, 2), rng.random() < 0.3, None, None, True,
                   rng.choice(RETURN_TYPES), True, 'digest')
    for _ in range(ctx.n(9000, 80000)):
        n = rng.randint(0, 40)
        prot = ''.join(rng.choice('KRPDEAFWYLGS') for _ in range(n))
        # mixed-style regexes are left out of the sequential clause: a look-behind alternative sees the residue before a
        # fragment only in the undigested protein, so '(?<=E)|K' reads the K after an earlier E-cut differently in the
        # two procedures whatever the implementation
        specific = [r for r in ALL_RULES if r not in rd.NON_SPECIFIC and r not in USER_MIXED]
        stages = [rng.sample(specific, rng.choice([1, 1, 2])) for _ in range(rng.randint(1, 3))]
        lo, hi = bounds(rng, min(n, 12))
        run_sequential(ctx, st, pt, prot, stages, lo, hi, rng.choice(RETURN_TYPES))
    # ---- F. histories on one rule list object: the caller keeps one list (or one EnzymeConfig) and edits it in place
    #         between digests of the same protein; every call must answer for the rules the list holds at that moment
    specific = [r for r in ALL_RULES if r not in rd.NON_SPECIFIC and r != 'no-cleave']
    for _ in range(ctx.n(6000, 40000)):
        n = rng.randint(2, 30)
        prot = ''.join(rng.choice('KRPDEAFWYLGS') for _ in range(n))
        held = rng.sample(specific, rng.choice([1, 1, 2]))
        use_cfg = rng.random() < 0.35
        missed, semi = rng.randint(0, 2), rng.random() < 0.25
        cfg = pt.EnzymeConfig(regex=held, missed_cleavages=missed, semi_enzymatic=semi, complete_digestion=True) \
            if use_cfg else None
        if cfg is not None:
            held = cfg.regex if isinstance(cfg.regex, list) else held
        rt = rng.choice(RETURN_TYPES)
        for step in range(rng.randint(2, 4)):
            run_digest(ctx, st, pt, prot, list(held), missed, semi, None, None, True, rt, True,
                       'config' if use_cfg else 'digest', rule_obj=cfg if use_cfg else held)
            op = rng.random()
            if op < 0.5 or len(held) == 1:
                held.append(rng.choice([r for r in specific if r not in held]))
            elif op < 0.8:
                held.remove(rng.choice(held))
            else:
                held[rng.randrange(len(held))] = rng.choice([r for r in specific if r not in held])
            if rng.random() < 0.3:
                rt = rng.choice(RETURN_TYPES)
    ctx.extra['build_spans_direct_decisions'] = st.bs_direct
    ctx.extra['build_spans_nested_decisions'] = st.bs_nested
    ctx.extra['cleavage_site_decisions'] = st.sites_checked
    ctx.extra['ambiguous_all_site_layouts_skipped'] = st.ambiguous_layouts


def reproduce(kf_id):
    import peptacular as pt
    if kf_id == 'K5':
        return list(pt.digest('K', '(?=K)|(?<=K)', return_type='span')) != [(0, 1, 0)]
    return None


def replay(ctx, case):
    st = State()
    pt = install(ctx, st)
    if case.get('via') == 'build_spans':
        st.case = None
        print(list(pt.build_spans(case['n'], case['sites'], case['missed'], case['min_len'], case['max_len'],
                                  case['semi'])))
        print('model:', sorted(rd.spans(case['n'], case['sites'], case['missed'], case['semi'], case['min_len'],
                                        case['max_len'])))
    elif case.get('via') == 'get_cleavage_sites':
        print(list(pt.get_cleavage_sites(case['protein'], case['rule'])), 'model:',
              rd.sites(case['protein'], case['rule']))
    elif case.get('via') == 'sequential_digest':
        run_sequential(ctx, st, pt, case['protein'], case['stages'], case['min_len'], case['max_len'],
                       case['return_type'])
    else:
        run_digest(ctx, st, pt, case['protein'], case['rules'], case['missed'], case['semi'], case['min_len'],
                   case['max_len'], case['complete'], case['return_type'], case['sort_output'], case['via'])
