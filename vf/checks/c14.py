"""C14 - isotopic distributions are normalised, centred on the right masses and complete."""
import signal
import itertools
import math

from vf.ref import atoms
from vf.ref import isotope as ri

DECIDING = ['peptacular.isotope.isotopic_distribution']
SHARDS = {'quick': 16, 'thorough': 16}
EXHAUSTIVE = {'quick': 'exact multinomial comparison for every composition with 1..5 atoms over C,H,N,O,S',
              'thorough': 'exact multinomial comparison for every composition with 1..8 atoms over C,H,N,O,S '
                          '(random samples up to 12 atoms)'}
RULE = ('compositions over C,H,N,O,S,P (normalisation and mean clauses also Se,Cl,Br,Fe), integer and fractional counts, '
        'optional e/p/n entries, isotope-labelled elements, option grid (max_isotopes, min_abundance_threshold, '
        'distribution_resolution 0..6, use_neutron_count x output_masses_for_neutron_offset, distribution_abundance, '
        'is_abundance_sum); 20% of the calls preceded by a call on the same formula with other settings (convolution threshold, max_isotopes, resolution ...); post-conditions on isotopic_distribution / estimate_isotopic_distribution / '
        'merge_isotopic_distributions: sorted, normalised, lightest peak = monoisotopic mass incl. particles, weighted '
        'mean = average mass within a per-case allowance (replay of the documented 1e-8 convolution floor), neutron-offset '
        'view = mass view binned by nominal offset, exact multinomial peaks for small formulas, merge adds abundances. '
        'signature = (clause set, elements, size bucket, fractional, particles, options); non-trivial = at least two elements '
        'or at least 10 atoms')
ASSUMPTIONS = ['the mean clause allows twice the deviation that the documented in-convolution floor (products below 1e-8 are '
               'dropped) produces in an independent replay, plus the resolution term and 1e-6',
               'lightest-peak clause only for elements whose lightest isotope is the most abundant one (C,H,N,O,S,P)',
               'counts are cost-bounded: C,H,N,O,P <= 200, S <= 100, Cl/Br/Fe <= 60, Se <= 12; a single library call that '
               'runs longer than 90 s wall clock is abandoned and counted as an inconclusive case (cost, never a verdict)',
               'binning clause: |neutron view - binned mass view| <= 1e-3 of the bin + 5e-5 of the base peak (fine-structure '
               'peaks under the documented 1e-8 floor are dropped from the mass view only)']
LEVEL_TEXT = ('Every isotopic_distribution execution is checked by post-conditions against independent atomic data, an '
              'exact multinomial expansion (small formulas, enumerated) and a replayed allowance; held on the executions observed.')
TECHNIQUE = 'runtime monitoring: post-conditions with exact multinomial reference and per-case computed allowance'

LIGHT = ['C', 'H', 'N', 'O', 'S', 'P']
CAP = {'C': 200, 'H': 200, 'N': 200, 'O': 200, 'P': 200, 'S': 100, 'Cl': 60, 'Br': 60, 'Fe': 60, 'Se': 12}


class State:
    def __init__(self):
        self.case = None
        self.clauses = {}


def install(ctx, st: State):
    import peptacular as pt

    def post(call):
        if call.depth == 0 and st.case is not None:
            st.case['result'] = call.result

    def on_raise(call):
        if call.depth == 0 and st.case is not None:
            st.case['exc'] = call.exc

    ctx.eng.attach('peptacular.isotope.isotopic_distribution', post=post, on_raise=on_raise)
    ctx.eng.attach('peptacular.isotope.estimate_isotopic_distribution', post=post, on_raise=on_raise)
    ctx.eng.attach('peptacular.isotope.merge_isotopic_distributions', post=post, on_raise=on_raise)
    return pt


class CallTooSlow(BaseException):
    pass


def _too_slow(signum, frame):
    raise CallTooSlow()


CALL_WALL_S = 90.0     # wall clock never yields a verdict: a call over this budget is an inconclusive case
SLOW = []


def call(st, fn, *a, **k):
    st.case = {}
    old = signal.signal(signal.SIGALRM, _too_slow)
    signal.setitimer(signal.ITIMER_REAL, CALL_WALL_S)
    try:
        fn(*a, **k)
    except CallTooSlow:
        st.case = {'slow': True}
        SLOW.append(repr((a, k))[:300])
    except Exception:
        pass
    finally:
        signal.setitimer(signal.ITIMER_REAL, 0)
        signal.signal(signal.SIGALRM, old)
    c, st.case = st.case, None
    return c


def count(st, k):
    st.clauses[k] = st.clauses.get(k, 0) + 1


def split_comp(comp):
    parts = {k: v for k, v in comp.items() if k in ('e', 'p', 'n')}
    elems = {k: v for k, v in comp.items() if k not in ('e', 'p', 'n') and v != 0}
    return elems, parts


def particle_mass(parts):
    return parts.get('e', 0) * atoms.ELECTRON + parts.get('p', 0) * atoms.PROTON + parts.get('n', 0) * atoms.NEUTRON


def gen_comp(rng, small=False, heavy_ok=True):
    comp = {}
    pool = LIGHT + (['Se', 'Cl', 'Br', 'Fe'] if heavy_ok and rng.random() < 0.2 else [])
    k = rng.randint(1, 4 if small else 5)
    big = (not small) and rng.random() < 0.25
    for sym in rng.sample(pool, min(k, len(pool))):
        cap = CAP[sym] if sym in ('C', 'H', 'N', 'O', 'P') else min(CAP[sym], 30)
        hi = cap if big else min(cap, 14 if small else 40)
        comp[sym] = rng.randint(0 if rng.random() < 0.05 else 1, hi)
    if rng.random() < 0.15:
        lab = rng.choice(['13C', '15N', 'D', '18O', '2H', 'T', '3H', '17O', '34S', '33S', '37Cl', '81Br'])
        comp[lab] = rng.randint(1, 10)
    if rng.random() < 0.06:
        # the same hydrogen isotope under two of its accepted spellings in one composition: the counts add
        a_, b_ = rng.choice([('D', '2H'), ('2H', 'D'), ('T', '3H'), ('3H', 'T')])
        comp[a_] = rng.randint(1, 6)
        comp[b_] = rng.randint(1, 6)
    frac = rng.random() < 0.2
    if frac:
        for sym in list(comp):
            if rng.random() < 0.6 and not sym[0].isdigit() and sym != 'D':
                comp[sym] = round(comp[sym] + rng.uniform(-0.49, 0.49), rng.choice([1, 2, 3]))
                if comp[sym] < 0:
                    comp[sym] = 0.3
    if rng.random() < 0.08:
        # counts that come out of float arithmetic: an integer value held as a float, or one ulp off an integer
        # (0.29 * 100 == 28.999999999999996); the nearest integer is the number of atoms
        for sym in rng.sample(list(comp), rng.randint(1, len(comp))):
            if comp[sym] >= 1 and isinstance(comp[sym], int):
                v = float(comp[sym])
                comp[sym] = rng.choice([v, math.nextafter(v, 0.0), math.nextafter(v, math.inf), v * (1 - 2e-16)])
        frac = True
    parts = {}
    if rng.random() < 0.25:
        for pname in rng.sample(['e', 'p', 'n'], rng.randint(1, 2)):
            parts[pname] = rng.randint(-3, 3) or 1
    comp.update(parts)
    return comp, frac


def check_distribution(ctx, st, pt, comp, frac, opts, text=None):
    """Runs one isotopic_distribution call and evaluates every applicable clause."""
    elems, parts = split_comp(comp)
    case = {'composition': comp, 'options': opts}
    ctx.begin(case)
    c = call(st, pt.isotopic_distribution, dict(comp), **opts)
    if 'exc' in c:
        ctx.decided()
        ctx.violation('isotopic_distribution-raises', {'case': case, 'exception': f'{type(c["exc"]).__name__}: '
                                                                                   f'{c["exc"]}'[:200]})
        return
    dist = c.get('result')
    if dist is None:
        ctx.inconclusive_case(f'call over the wall budget of {CALL_WALL_S:.0f}s (cost, no verdict): {case}'[:300]
                              if c.get('slow') else 'monitor not reached')
        return
    if not dist:
        ctx.decided()
        ctx.violation('empty-distribution', {'case': case})
        return
    res = opts.get('distribution_resolution', 5)
    neutron_view = opts.get('use_neutron_count', False)
    out_masses = opts.get('output_masses_for_neutron_offset', False)
    pruned = opts.get('max_isotopes') is not None or (opts.get('min_abundance_threshold') or 0) > 0
    masses = [m for m, _a in dist]
    abund = [a for _m, a in dist]
    # sorted
    count(st, 'sorted')
    ctx.decided()
    if any(masses[i] > masses[i + 1] for i in range(len(masses) - 1)):
        ctx.violation('not-sorted-by-mass', {'case': case, 'masses': masses[:10]})
    # normalisation
    count(st, 'normalised')
    ctx.decided()
    want = opts.get('distribution_abundance', 1.0)
    got = sum(abund) if opts.get('is_abundance_sum', False) else max(abund)
    if abs(got - want) > 1e-9 * abs(want):
        ctx.violation('normalisation-wrong', {'case': case, 'expected': want, 'observed': got})
    if any(a < 0 for a in abund):
        ctx.violation('negative-abundance', {'case': case})
    light_only = all((k in LIGHT or k[0].isdigit() or k in ('D', 'T')) for k in elems)
    n_el = max(1, len(elems))
    res_term = n_el * 0.5 * 10 ** (-res) + 1e-9
    mass_view = (not neutron_view)
    int_elems = {k: int(round(v)) for k, v in elems.items()}
    mono = atoms.comp_mass(elems, True) + particle_mass(parts)
    avg = atoms.comp_mass(elems, False) + particle_mass(parts)
    if mass_view and light_only and not pruned:
        # lightest peak
        count(st, 'lightest-peak')
        ctx.decided()
        if abs(masses[0] - mono) > res_term + 1e-6:
            kf = None
            ctx.violation('lightest-peak-not-at-monoisotopic-mass',
                          {'case': case, 'lightest': masses[0], 'monoisotopic_mass_incl_particles': mono,
                           'difference': masses[0] - mono}, kf=kf)
    if mass_view and not pruned:
        # weighted mean = average mass, within the replayed allowance
        n_atoms = sum(int_elems.values())
        if n_atoms <= 700 and int_elems.get('Se', 0) <= 12:
            count(st, 'mean')
            ctx.decided()
            mean = sum(m * a for m, a in dist) / sum(abund)
            rmean, _tot = ri.replay_mean(int_elems, 1e-8, res)
            ravg = atoms.comp_mass(int_elems, False)
            allowance = 2 * abs(rmean - ravg) + res_term + 1e-6
            if frac:
                allowance += sum(abs(v - round(v)) * abs(atoms.average(k) - atoms.mono(k)) for k, v in elems.items())
            if abs(mean - avg) > allowance:
                ctx.violation('weighted-mean-not-at-average-mass',
                              {'case': case, 'mean': mean, 'average_mass': avg, 'difference': mean - avg,
                               'allowance': allowance})
    if neutron_view and out_masses and not pruned and light_only:
        # masses reported for neutron offsets start at the monoisotopic mass
        count(st, 'neutron-offset-masses')
        ctx.decided()
        nm = opts.get('neutron_mass', atoms.NEUTRON)
        base = atoms.comp_mass(int_elems, True)
        exp0 = mono
        if abs(masses[0] - exp0) > 1e-6:
            kf = None
            if frac:
                # K8: (offset + fractional residual [+ particle offset]) is multiplied by the neutron mass
                delta = atoms.comp_mass(elems, True) - base
                emu = base + (0 + delta + particle_mass(parts)) * nm
                if abs(masses[0] - emu) <= 1e-6:
                    kf = 'K8'
            ctx.violation('neutron-offset-mass-output-wrong', {'case': case, 'lightest': masses[0],
                                                               'expected': exp0}, kf=kf)


def binning_clause(ctx, st, pt, comp):
    """neutron-offset view == mass view binned by nominal offset (no pruning, sum-normalised)."""
    elems, parts = split_comp(comp)
    if not all(k in LIGHT for k in elems) or any(not isinstance(v, int) for v in elems.values()):
        return
    ctx.begin({'composition': comp, 'clause': 'binning'})
    a = call(st, pt.isotopic_distribution, dict(comp), None, None, 5, False, None, 1.0, True).get('result')
    b = call(st, pt.isotopic_distribution, dict(comp), None, None, 5, True, None, 1.0, True).get('result')
    if a is None or b is None:
        ctx.inconclusive_case('monitor not reached')
        return
    count(st, 'binning')
    ctx.decided()
    m0 = a[0][0]
    bins = {}
    for m, ab in a:
        k = int(round(m - m0))
        bins[k] = bins.get(k, 0.0) + ab
    nv = {int(k): v for k, v in b}
    lo = min(nv)
    nv = {k - lo: v for k, v in nv.items()}
    base = max(bins.values())
    for k, v in bins.items():
        if v >= 1e-3 * base:
            w = nv.get(k, 0.0)
            # fine-structure peaks under the documented 1e-8 floor are dropped from the mass view but stay summed in the
            # neutron view: with ~30 sulfur atoms they add up to a few 1e-6 of the base peak at the far offsets
            if abs(w - v) > 1e-3 * v + 1e-6 + 5e-5 * base:
                ctx.violation('neutron-offset-view-differs-from-binned-mass-view',
                              {'composition': comp, 'offset': k, 'binned_mass_view': v, 'neutron_view': w})
                return


def threshold_clause(ctx, st, pt, comp, t, res):
    """a pattern pruned by min_abundance_threshold=t is exactly the peaks of the unpruned pattern whose abundance relative
    to the largest peak is at least t (completeness under pruning)"""
    ctx.begin({'composition': comp, 'clause': 'threshold', 'threshold': t, 'resolution': res})
    full = call(st, pt.isotopic_distribution, dict(comp), None, None, res).get('result')
    cut = call(st, pt.isotopic_distribution, dict(comp), None, t, res).get('result')
    if full is None or cut is None:
        ctx.inconclusive_case('monitor not reached')
        return
    count(st, 'threshold-completeness')
    ctx.decided()
    must = [(m, a) for m, a in full if a >= t * (1 + 1e-9)]
    may = [(m, a) for m, a in full if a >= t * (1 - 1e-9)]
    got = {round(m, 9): a for m, a in cut}
    missing = [(m, a) for m, a in must if round(m, 9) not in got]
    may_keys = {round(mm, 9) for mm, _a in may}
    extra = [m for m in got if m not in may_keys]
    wrong = [(m, a, got[round(m, 9)]) for m, a in must if round(m, 9) in got and abs(got[round(m, 9)] - a) > 1e-12]
    if missing or extra or wrong:
        ctx.violation('thresholded-pattern-differs-from-pruned-full-pattern',
                      {'composition': comp, 'threshold': t, 'resolution': res, 'expected_peaks': len(must),
                       'observed_peaks': len(cut), 'missing': missing[:4], 'extra': extra[:4], 'wrong': wrong[:3]})


def exact_clause(ctx, st, pt, comp):
    ctx.begin({'composition': comp, 'clause': 'exact'})
    res = 6
    got = call(st, pt.isotopic_distribution, dict(comp), None, None, res).get('result')
    if got is None:
        ctx.inconclusive_case('monitor not reached')
        return
    count(st, 'exact-multinomial')
    ctx.decided()
    exact = ri.exact_pattern(comp)
    top = max(a for _m, a, _o in exact)
    tol_m = len(comp) * 0.5 * 10 ** (-res) + 1e-9
    ex = sorted((m, a / top) for m, a, _o in exact)
    # merge exact peaks closer than the rounding grain (the library merges equal rounded masses)
    merged = []
    for m, a in ex:
        if merged and abs(m - merged[-1][0]) <= 2 * tol_m:
            merged[-1] = ((merged[-1][0] * merged[-1][1] + m * a) / (merged[-1][1] + a), merged[-1][1] + a)
        else:
            merged.append((m, a))
    gm = []
    for m, a in sorted(got):
        if gm and abs(m - gm[-1][0]) <= 2 * tol_m:
            gm[-1] = ((gm[-1][0] * gm[-1][1] + m * a) / (gm[-1][1] + a), gm[-1][1] + a)
        else:
            gm.append((m, a))
    top_g = max(a for _m, a in gm)
    top_e = max(a for _m, a in merged)
    gm = [(m, a / top_g) for m, a in gm]
    merged = [(m, a / top_e) for m, a in merged]
    # the documented 1e-8 in-convolution floor perturbs tiny peaks: abundances are compared for peaks >= 1e-4 of the
    # base peak (relative 1e-3); every reported peak must sit on an exact peak
    for m, a in gm:
        near = [(mm, aa) for mm, aa in merged if abs(mm - m) <= 3 * tol_m]
        if not near:
            ctx.violation('peak-not-in-exact-expansion', {'composition': comp, 'peak': [m, a]})
            return
        if a >= 1e-4 and abs(sum(aa for _mm, aa in near) - a) > 1e-3 * a:
            ctx.violation('peak-abundance-differs-from-exact-expansion', {'composition': comp, 'peak': [m, a],
                                                                          'exact': near[:3]})
            return
    for m, a in merged:
        if a >= 1e-4 and not any(abs(mm - m) <= 3 * tol_m for mm, _aa in gm):
            ctx.violation('exact-peak-missing', {'composition': comp, 'peak': [m, a]})
            return


def gen_opts(rng):
    o = {}
    if rng.random() < 0.35:
        o['max_isotopes'] = rng.randint(1, 20)
    if rng.random() < 0.4:
        o['min_abundance_threshold'] = rng.choice([0, 1e-6, 1e-3])
    o['distribution_resolution'] = rng.choice([0, 1, 2, 3, 4, 5, 5, 6])
    if rng.random() < 0.3:
        o['use_neutron_count'] = True
        if rng.random() < 0.5:
            o['output_masses_for_neutron_offset'] = True
    if rng.random() < 0.4:
        o['distribution_abundance'] = rng.choice([100.0, 1e6, 0.5, 12345.678, 1e-3])
    if rng.random() < 0.4:
        o['is_abundance_sum'] = True
    return o


def run(ctx):
    st = State()
    pt = install(ctx, st)
    ctx.enable_disturb(pt, 0.03)     # other legitimate library calls interleaved between cases (vf.gen.disturb)
    rng = ctx.rng
    # exact comparison, enumerated
    k = 0
    nmax = 5 if ctx.quick() else 8
    for total in range(1, nmax + 1):
        for counts in itertools.product(range(total + 1), repeat=5):
            if sum(counts) != total:
                continue
            k += 1
            if not ctx.mine(k):
                continue
            comp = {s: c for s, c in zip(['C', 'H', 'N', 'O', 'S'], counts) if c}
            exact_clause(ctx, st, pt, comp)
            ctx.sig(('exact', sorted(comp), total), len(comp) >= 2)
    for _ in range(ctx.n(150, 6000)):
        comp = {}
        total = rng.randint(6, 12)
        for _i in range(total):
            s = rng.choice(['C', 'H', 'N', 'O', 'S', 'P'])
            comp[s] = comp.get(s, 0) + 1
        exact_clause(ctx, st, pt, comp)
        ctx.sig(('exact-random', sorted(comp), total), True)
    # option grid on generated compositions
    for i in range(ctx.n(1600, 40000)):
        small = rng.random() < 0.85
        comp, frac = gen_comp(rng, small)
        opts = gen_opts(rng) if rng.random() < 0.7 else {}
        if rng.random() < 0.2:
            # the same formula asked for first with other settings (a coarse preview: convolution threshold, few
            # isotopes, another resolution); the call under observation answers for its own settings
            pre = rng.choice([{'conv_min_abundance_threshold': 1e-3}, {'conv_min_abundance_threshold': 0.05},
                              {'max_isotopes': 2}, {'distribution_resolution': 1}, {'min_abundance_threshold': 0.01},
                              {'use_neutron_count': True}, {'precision': 2}])
            pre = dict({k2: v2 for k2, v2 in opts.items() if k2 not in pre and rng.random() < 0.7}, **pre)
            with ctx.eng.suspend():
                call(st, pt.isotopic_distribution, dict(comp), **pre)
        check_distribution(ctx, st, pt, comp, frac, opts)
        elems, parts = split_comp(comp)
        n_atoms = sum(elems.values())
        ctx.sig((sorted(elems), 'S' if n_atoms < 10 else 'M' if n_atoms < 60 else 'L', frac, sorted(parts),
                 sorted(opts)), len(elems) >= 2 or n_atoms >= 10)
        if i % 50 == 0:
            ctx.sample({'composition': comp, 'options': opts})
        if i % 5 == 0 and not frac:
            binning_clause(ctx, st, pt, {k2: v for k2, v in comp.items() if k2 in LIGHT and v})
        if i % 3 == 0 and not frac:
            plain = {k2: v for k2, v in comp.items() if k2 not in ('e', 'p', 'n') and v}
            if plain and sum(plain.values()) <= 80:
                threshold_clause(ctx, st, pt, plain, rng.choice([1e-6, 1e-3, 1e-3, 0.05]), rng.choice([2, 4, 5]))
    # the corner of the quantifier where an unpruned pattern has more than a million peaks (150 atoms of each of C,H,N,O,S
    # at resolution 6: ~1.8e6 peaks, 10-20 s): thorough tier only, one case per run
    if not ctx.quick() and ctx.shard == 0:
        big = {'C': 150, 'H': 150, 'N': 150, 'O': 150, 'S': 150}
        check_distribution(ctx, st, pt, big, False, {'distribution_resolution': 6})
        ctx.sig((sorted(big), 'XL', False, [], ['distribution_resolution']), True)
    # averagine estimate: lightest peak at the requested neutral mass
    for _ in range(ctx.n(200, 4000)):
        m = round(rng.uniform(200, 4000), 3)
        ctx.begin({'estimate_for_neutral_mass': m})
        got = call(st, pt.estimate_isotopic_distribution, m, None, None, 5).get('result')
        count(st, 'estimate')
        ctx.decided()
        if not got or abs(got[0][0] - m) > 5 * 0.5e-5 + 1e-6 or abs(max(a for _x, a in got) - 1.0) > 1e-9:
            ctx.violation('estimate-not-centred-or-normalised', {'neutral_mass': m, 'first_peaks': (got or [])[:3]})
        ctx.sig(('estimate', int(m) // 500), True)
    # merge adds abundances at equal masses
    for _ in range(ctx.n(2000, 40000)):
        ds = []
        for _j in range(rng.randint(1, 3)):
            ds.append([(rng.choice([100.0, 101.0, 101.00335, 102.5, 103.0]) if rng.random() < 0.7
                        else round(rng.uniform(99, 105), 4), round(rng.uniform(0, 1), 3)) for _q in range(rng.randint(0, 5))])
        prec = rng.choice([None, None, 0, 1, 3])     # with a precision, masses that round to the same value merge
        ctx.begin({'merge': ds, 'precision': prec})
        if prec is None:
            got = call(st, pt.merge_isotopic_distributions, *[list(d) for d in ds]).get('result')
        else:
            got = call(st, pt.merge_isotopic_distributions, *[list(d) for d in ds], precision=prec).get('result')
        count(st, 'merge')
        ctx.decided()
        exp = {}
        for d in ds:
            for m, a in d:
                m = m if prec is None else round(m, prec)
                exp[m] = exp.get(m, 0.0) + a
        ok = got is not None and [m for m, _a in got] == sorted(exp) and \
            all(abs(a - exp[m]) <= 1e-12 for m, a in got)
        if not ok:
            ctx.violation('merge-does-not-add-abundances', {'inputs': ds, 'precision': prec, 'observed': got})
        ctx.sig(('merge', len(ds), len(exp), prec), len(ds) >= 2)
    for k2, v in st.clauses.items():
        ctx.extra['clause_' + k2] = v
    ctx.extra['calls_over_wall_budget'] = len(SLOW)


def reproduce(kf_id):
    import peptacular as pt
    if kf_id == 'K8':
        d = pt.isotopic_distribution({'C': 20, 'H': 20.5, 'N': 20, 'O': 20}, 5, 0.0, 0, True,
                                     output_masses_for_neutron_offset=True)
        mono = atoms.comp_mass({'C': 20, 'H': 20.5, 'N': 20, 'O': 20})
        return abs(d[0][0] - mono) > 1e-6
    return None


def replay(ctx, case):
    st = State()
    pt = install(ctx, st)
    if case.get('clause') == 'exact':
        exact_clause(ctx, st, pt, case['composition'])
    elif case.get('clause') == 'binning':
        binning_clause(ctx, st, pt, case['composition'])
    elif case.get('clause') == 'threshold':
        threshold_clause(ctx, st, pt, case['composition'], case['threshold'], case['resolution'])
    elif 'composition' in case:
        frac = any(isinstance(v, float) for v in case['composition'].values())
        check_distribution(ctx, st, pt, case['composition'], frac, case['options'])
