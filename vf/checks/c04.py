"""C04 - fragmentation enumerates every ion once and agrees with the mass calculator."""
import itertools
import math
import re
from collections import Counter

from vf.gen import pep as gp
from vf.ref import atoms, chem
from vf.ref import pep as rp

DECIDING = ['peptacular.fragmentation.fragment']
RULE = ('fragment()/Fragmenter.fragment() requests on generated peptides of length 1..12 (residue, terminal, static '
        'incl. N-Term/C-Term targets, isotope-label modifications) x non-empty subsets of the 16 ion types x charge '
        'lists within 1..4 x isotope lists within 0..3 x water/ammonia/custom losses, max_losses 1..3 x both modes x '
        'precision None/0..6. The post-condition checks the multiset of (type,start,end,charge,isotope,loss) against '
        'the span/loss model, every ion\'s sequence/mass/mz/neutral mass against mass()/mz() on the ion\'s own '
        'sequence, labels against the numbering rule, the five other return types element-wise, and the cached '
        'Fragmenter (twice) against fragment(). signature = (ion-type classes, charges, isotopes, loss options, mode, '
        'precision class, modification placements); non-trivial = at least two ion types or a modification')
ASSUMPTIONS = ['applicable losses follow the library\'s documented rule: one per regex match on the span, combinations up '
               'to max_losses; generated loss patterns are residue classes, anchored classes and look-arounds, matched on the ion\'s own residues',
               'in average mode a k-fold charged ion may differ by k*1.16e-4 (CODATA proton vs average hydrogen minus '
               'electron; the statement does not fix the convention)']
LEVEL_TEXT = ('Every fragment() execution is checked ion by ion against an independent enumeration model and against '
              'mass()/mz() on each ion\'s own sequence; held on the executions observed.')
TECHNIQUE = 'runtime monitoring: post-condition on fragment()/Fragmenter.fragment() with span/loss model and mass() cross-check'

LETTERS = list('ACDEFGHIKLMNPQRSTVWY')
WATER = ('[STED]', -18.01056)
AMMONIA = ('[RKNQ]', -17.02655)
H_AVG_MINUS_E_MINUS_PROTON = atoms.average('H') - atoms.ELECTRON - atoms.PROTON   # 1.157e-4


def expected_spans(n, ion_type):
    if ion_type in chem.FORWARD:
        return [(0, e) for e in range(1, n + 1)]
    if ion_type in chem.BACKWARD:
        return [(s, n) for s in range(0, n)]
    if ion_type in chem.INTERNAL:
        return [(s, e) for s in range(1, n) for e in range(s + 1, n)]
    if ion_type == 'i':
        return [(i, i + 1) for i in range(n)]
    raise KeyError(ion_type)


def loss_set(span_seq, loss_rules, max_losses):
    """loss_rules: [(regex, value)] -> set of applicable losses rounded to 9 places (0.0 always there)."""
    applicable = []
    for rx, val in loss_rules:
        # one applicable loss per match of the rule ON THE ION'S OWN RESIDUES (anchors and look-arounds see the ion only)
        applicable.extend([val] * len(re.findall(rx, span_seq)))
    out = set(applicable)
    for k in range(2, max_losses + 1):
        for comb in itertools.combinations(applicable, k):
            out.add(sum(comb))
    out.add(0.0)
    return {round(x, 9) for x in out}


def label_for(ion_type, n, s, e, charge, loss, isotope):
    if ion_type in chem.FORWARD:
        num = str(e)
    elif ion_type in chem.BACKWARD:
        num = str(n - s)
    elif ion_type in chem.INTERNAL:
        num = f'{s}-{e}'
    else:
        return None
    return '+' * charge + ion_type + num + (f'({loss})' if loss != 0.0 else '') + ('*' * isotope if isotope > 0 else '')


def frag_tuple(f):
    return (f.charge, f.ion_type, f.start, f.end, f.monoisotopic, f.isotope, f.loss, f.mass, f.neutral_mass, f.mz,
            f.sequence, f.unmod_sequence, f.internal)


class State:
    def __init__(self):
        self.case = None
        self.ions_checked = 0
        self.mass_cache = {}


def install(ctx, st: State):
    import peptacular as pt
    from peptacular.proforma.proforma_parser import parse as parse0

    def frag_post(call):
        c = st.case
        if c is None or call.depth != 0:
            return
        if c['phase'] != 'fragment':
            return
        check_fragments(ctx, st, pt, parse0, c, call.result)

    ctx.eng.attach('peptacular.fragmentation.fragment', post=frag_post)
    return pt


def term_rule_mass(p, mono):
    tot = 0.0
    for r in p.static:
        for t in r.targets:
            if t in ('N-Term', 'C-Term'):
                tot += sum(m.mass(mono) for m in r.mods)
    return tot


def offset_label_shift(p, ion_type, charge, mono=True):
    """K4 emulation: mass the fragmenter misses because ion-offset atoms (and extra charge carriers) stay unlabelled.
    The offset atoms are read from the library's own public table, because the emulation must reproduce the
    library's mechanism exactly (incl. its ax/az/bx/bz entries, see K9)."""
    if not p.isotope:
        return 0.0
    from peptacular.constants import FRAGMENT_ION_COMPOSITION_ADJUSTMENTS
    off = dict(FRAGMENT_ION_COMPOSITION_ADJUSTMENTS[ion_type])   # composition of the singly charged ion offset
    off['H'] = off.get('H', 0) + (charge - 1)                    # further charge carriers are H+ in the composition path
    lm = rp.label_map(p.isotope)
    shift = 0.0
    for el, cnt in off.items():
        if el in lm:
            shift += cnt * (atoms.mono(lm[el]) - (atoms.mono(el) if mono else atoms.average(el)))
    return shift


def check_fragments(ctx, st, pt, parse0, c, frags):
    p, req = c['pep'], c['req']
    n = len(p.seq)
    mono = req['monoisotopic']
    prec = req['precision']
    # ---- enumeration clause -------------------------------------------------------------------------
    exp = Counter()
    for t in req['ion_types']:
        for (s, e) in expected_spans(n, t):
            ls = loss_set(p.seq[s:e], c['loss_rules'], req['max_losses'])
            for z in req['charges']:
                for iso in req['isotopes']:
                    for l in ls:
                        exp[(t, s, e, z, iso, l)] += 1
    obs = Counter((f.ion_type, f.start, f.end, f.charge, f.isotope, round(f.loss, 9)) for f in frags)
    ctx.decided()
    if exp != obs:
        missing = list((exp - obs).items())[:5]
        extra = list((obs - exp).items())[:5]
        ctx.violation('ion-enumeration-differs', {'text': c['text'], 'request': req, 'missing': missing,
                                                  'extra': extra, 'expected_n': sum(exp.values()),
                                                  'observed_n': len(frags)})
        return
    # ---- per-ion clauses ----------------------------------------------------------------------------
    tol = 1e-6 if prec is None else 10 ** (-prec) + 1e-9
    trm = term_rule_mass(p, mono)
    seq_ok = {}
    reported = set()
    for f in frags:
        st.ions_checked += 1
        ctx.decided()
        key = (f.start, f.end)
        if key not in seq_ok:
            # an ion is a piece of the peptide with its terminal rules written out: it inherits a terminal rule's
            # modification only together with that terminus
            q = rp.slice_pep(rp.expand_terminal_static(p), f.start, f.end)
            q.labile = []
            try:
                d = rp.diff_fields(rp.expected_fields(q), rp.observed_fields(parse0(f.sequence)))
            except Exception as ex:
                d = {'exception': f'{type(ex).__name__}: {ex}'[:200]}
            seq_ok[key] = d
            if d and ('seq', key) not in reported:
                reported.add(('seq', key))
                ctx.violation('ion-sequence-differs', {'text': c['text'], 'span': key, 'sequence': f.sequence,
                                                       'diff': d})
            if f.unmod_sequence != p.seq[f.start:f.end]:
                ctx.violation('ion-unmod-sequence-differs', {'text': c['text'], 'span': key,
                                                             'observed': f.unmod_sequence})
        if f.internal != (f.start != 0 and f.end != n):
            ctx.violation('internal-flag-wrong', {'text': c['text'], 'span': key, 'internal': f.internal})
        mk = (f.sequence, f.ion_type, f.charge, f.isotope, f.loss, mono)
        if mk not in st.mass_cache:
            if len(st.mass_cache) > 200000:
                st.mass_cache.clear()
            try:
                m_full = pt.mass(f.sequence, charge=f.charge, ion_type=f.ion_type, monoisotopic=mono,
                                 isotope=f.isotope, loss=f.loss, precision=None)
                m_neutral = pt.mass(f.sequence, charge=0, ion_type=f.ion_type, monoisotopic=mono,
                                    isotope=f.isotope, loss=f.loss, precision=None)
            except Exception as ex:
                ctx.violation('mass-of-ion-sequence-raises', {'text': c['text'], 'sequence': f.sequence,
                                                              'exception': type(ex).__name__})
                continue
            st.mass_cache[mk] = (m_full, m_neutral)
        m_full, m_neutral = st.mass_cache[mk]
        band = 0.0 if mono else (abs(f.charge) + 1) * 1.16e-4
        exp_mass = m_full if prec is None else round(m_full, prec)
        exp_mz = m_full / f.charge if prec is None else round(m_full / f.charge, prec)   # rounded once, as mz() does

        def tol_for(exact, bnd):
            # with a precision the reported value is the calculator's value rounded ONCE: it must be equal, except when
            # the exact value sits within float noise (or the average-mode band) of a rounding boundary, where the two
            # summation orders may legitimately round to neighbouring values
            if prec is None:
                return tol + bnd
            y = exact * 10 ** prec
            off = abs((y - math.floor(y)) - 0.5) / 10 ** prec
            return (10 ** (-prec) if off <= 5e-9 + bnd else 0.0) + 1e-9 + bnd
        bad = []
        if prec is not None:
            # a requested precision means the reported values ARE rounded to it (0 decimals included)
            for what_, v_ in (('mass', f.mass), ('mz', f.mz)):
                if abs(round(v_, prec) - v_) > 1e-9 and ('round', what_) not in reported:
                    reported.add(('round', what_))
                    ctx.violation('value-not-rounded-to-requested-precision',
                                  {'text': c['text'], 'request': req, 'ion': (f.ion_type, f.start, f.end, f.charge),
                                   'what': what_, 'observed': v_, 'precision': prec})
        if abs(f.mass - exp_mass) > tol_for(m_full, band):
            bad.append(('mass', f.mass, exp_mass))
        if abs(f.mz - exp_mz) > tol_for(m_full / f.charge, band / max(1, f.charge)):
            bad.append(('mz', f.mz, exp_mz))
        if abs(f.neutral_mass - m_neutral) > 1e-6 + band:
            bad.append(('neutral_mass', f.neutral_mass, m_neutral))
        if bad:
            kf = None
            what, o, e = bad[0]
            d_obs = (f.mass - m_full) if what != 'neutral_mass' else (f.neutral_mass - m_neutral)
            span_len = f.end - f.start
            k4 = -offset_label_shift(p, f.ion_type, f.charge if what != 'neutral_mass' else 0, mono)
            t2 = tol + band + 1e-6
            # K4: under a label the fragmenter leaves the offset atoms / charge carriers unlabelled (the former K3 term,
            # terminal rules counted per residue, was repaired: a recurrence is reported)
            if k4 != 0.0 and abs(d_obs - k4) <= t2 + 2e-6 * span_len:
                kf = 'K4'
            sigk = ('massdiff', f.ion_type if kf else f.ion_type, kf)
            if sigk in reported and kf is None:
                ctx.viol_counts['ion-mass-differs-from-mass-calculator|'] += 1
                continue
            reported.add(sigk)
            ctx.violation('ion-mass-differs-from-mass-calculator',
                          {'text': c['text'], 'request': req, 'ion': [f.ion_type, f.start, f.end, f.charge, f.isotope,
                                                                      f.loss],
                           'sequence': f.sequence, 'field': what, 'observed': o, 'mass_calculator': e,
                           'difference': d_obs}, kf=kf)
        # label / number
        lab = label_for(f.ion_type, n, f.start, f.end, f.charge, f.loss, f.isotope)
        if lab is not None and f.label != lab:
            if ('label', f.ion_type) not in reported:
                reported.add(('label', f.ion_type))
                ctx.violation('fragment-label-wrong', {'text': c['text'], 'observed': f.label, 'expected': lab})
    c['frags'] = frags


RETURN_TYPES = ['mass', 'mz', 'label', 'mass-label', 'mz-label']


def gen_request(rng, n):
    k = rng.choice([1, 1, 2, 3, 5, 16])
    ion_types = rng.sample(list(chem.ALL_ION_TYPES), min(k, 16))
    charges = sorted(rng.sample([1, 2, 3, 4], rng.choice([1, 1, 2, 4])))
    isotopes = sorted(rng.sample([0, 1, 2, 3], rng.choice([1, 1, 2, 4])))
    req = {'ion_types': ion_types, 'charges': charges, 'isotopes': isotopes,
           'monoisotopic': rng.random() < 0.65, 'water_loss': rng.random() < 0.3, 'ammonia_loss': rng.random() < 0.3,
           'max_losses': rng.choice([1, 1, 2, 3]), 'precision': rng.choice([None, None, 0, 1, 2, 3, 4, 5, 6])}
    custom = []
    if rng.random() < 0.3:
        for _ in range(rng.randint(1, 2)):
            letters = ''.join(sorted(rng.sample(LETTERS, rng.randint(1, 3))))
            rx = f'[{letters}]' if len(letters) > 1 or rng.random() < 0.5 else letters
            if rng.random() < 0.3:
                # anchored / look-around rules (pyro-Glu style '^Q', C-terminal 'K$', context-dependent sites)
                a = rng.choice(LETTERS)
                rx = rng.choice([f'^{a}', f'^[{letters}]', f'{a}$', f'(?<={a})[{letters}]', f'[{letters}](?={a})',
                                 f'(?<!^)[{letters}]'])
            custom.append((rx, rng.choice([-10.0, -5.0, -27.994915, -79.966331, -97.976896, 12.5])))
    if rng.random() < 0.06:
        # the caller's own accurate-mass water / ammonia rule on part of the built-in residue set, with the flag left
        # on: two rules, each applicable where it matches (the values differ in the sixth decimal)
        if rng.random() < 0.5:
            custom.append((rng.choice(['[ST]', 'S', '[ED]', 'T']), -18.010565))
            req['water_loss'] = True
        else:
            custom.append((rng.choice(['[QN]', 'K', '[RK]', 'N']), -17.026549))
            req['ammonia_loss'] = True
    req['losses'] = custom
    # keep the request size bounded
    n_int = max(0, (n - 1) * (n - 2) // 2)
    est = sum(n_int if t in chem.INTERNAL else n for t in ion_types) * len(charges) * len(isotopes)
    if req['water_loss'] or req['ammonia_loss'] or custom:
        est *= 2 + req['max_losses']
    while est > 2500 and (len(req['ion_types']) > 1 or len(req['charges']) > 1 or len(req['isotopes']) > 1):
        if len(req['isotopes']) > 1:
            req['isotopes'] = req['isotopes'][:-1]
        elif len(req['charges']) > 1:
            req['charges'] = req['charges'][:-1]
        else:
            req['ion_types'] = req['ion_types'][:max(1, len(req['ion_types']) // 2)]
        est = sum(n_int if t in chem.INTERNAL else n for t in req['ion_types']) * len(req['charges']) * \
            len(req['isotopes']) * (2 + req['max_losses'])
    return req


def loss_rules_of(req):
    rules = []
    for restr, val in req['losses']:
        rules.append((restr, val))
    if req['water_loss']:
        rules.append(('[STED]', WATER[1]))
    if req['ammonia_loss']:
        rules.append(('[RKNQ]', AMMONIA[1]))
    return rules


def call_kwargs(req, return_type='fragment'):
    kw = dict(ion_types=list(req['ion_types']), charges=list(req['charges']), isotopes=list(req['isotopes']),
              water_loss=req['water_loss'], ammonia_loss=req['ammonia_loss'],
              losses=[tuple(x) for x in req['losses']] if req['losses'] else None,
              max_losses=req['max_losses'], return_type=return_type, precision=req['precision'])
    return kw


def run_case(ctx, st, pt, p, req):
    text = rp.write(p)
    case = {'text': text, 'request': req, 'pep': rp.to_json(p)}
    ctx.begin(case)
    c = {'pep': p, 'req': req, 'text': text, 'loss_rules': loss_rules_of(req), 'phase': 'fragment', 'frags': None}
    st.case = c
    try:
        kw0 = call_kwargs(req)
        if ctx.rng.random() < 0.25:
            # the documented positional order (sequence, ion_types, charges, monoisotopic, isotopes, ...) and flags given
            # as 1 instead of True (a config file, a table column) ask for the same thing
            it, ch, iso = kw0.pop('ion_types'), kw0.pop('charges'), kw0.pop('isotopes')
            kw0['water_loss'] = 1 if kw0['water_loss'] else kw0['water_loss']
            kw0['ammonia_loss'] = 1 if kw0['ammonia_loss'] else kw0['ammonia_loss']
            frags = pt.fragment(text, it, ch, req['monoisotopic'], iso, **kw0)
        else:
            frags = pt.fragment(text, monoisotopic=req['monoisotopic'], **kw0)
    except Exception as ex:
        ctx.decided()
        ctx.violation('fragment-raises', {'text': text, 'request': req, 'exception': f'{type(ex).__name__}: {ex}'[:300]})
        st.case = None
        return
    c['phase'] = 'projections'
    base = c['frags']
    if base is not None:
        # the five other return types are projections of the same list
        for rt in RETURN_TYPES:
            try:
                other = pt.fragment(text, monoisotopic=req['monoisotopic'], **call_kwargs(req, rt))
            except Exception as ex:
                ctx.violation('fragment-raises', {'text': text, 'return_type': rt, 'exception': type(ex).__name__})
                continue
            ctx.decided()
            if rt == 'mass':
                proj = [f.mass for f in base]
            elif rt == 'mz':
                proj = [f.mz for f in base]
            elif rt == 'label':
                proj = [f.label for f in base]
            elif rt == 'mass-label':
                proj = [(f.mass, f.label) for f in base]
            else:
                proj = [(f.mz, f.label) for f in base]
            if list(other) != proj:
                idx = next((i for i, (a, b) in enumerate(zip(other, proj)) if a != b), None)
                ctx.violation('return-type-not-a-projection',
                              {'text': text, 'request': req, 'return_type': rt, 'first_difference_at': idx,
                               'observed': other[idx] if idx is not None and idx < len(other) else len(other),
                               'expected': proj[idx] if idx is not None and idx < len(proj) else len(proj)})
        # cached Fragmenter, asked twice
        try:
            fr = pt.Fragmenter(text, req['monoisotopic'])
            one = fr.fragment(**call_kwargs(req))
            two = fr.fragment(**call_kwargs(req))
            ctx.decided(2)
            b = [frag_tuple(f) for f in base]
            if [frag_tuple(f) for f in one] != b:
                ctx.violation('fragmenter-differs-from-fragment', {'text': text, 'request': req, 'call': 1})
            if [frag_tuple(f) for f in two] != b:
                ctx.violation('fragmenter-differs-from-fragment', {'text': text, 'request': req, 'call': 2})
        except Exception as ex:
            ctx.violation('fragmenter-raises', {'text': text, 'request': req, 'exception': type(ex).__name__})
    st.case = None
    classes = sorted({'fwd' if t in chem.FORWARD else 'bwd' if t in chem.BACKWARD else 'int' if t in chem.INTERNAL
                      else 'imm' for t in req['ion_types']})
    ctx.sig((classes, len(req['ion_types']), req['charges'], req['isotopes'], req['water_loss'], req['ammonia_loss'],
             bool(req['losses']), req['max_losses'], 'mono' if req['monoisotopic'] else 'avg',
             req['precision'] is not None, p.features()), len(req['ion_types']) >= 2 or bool(p.all_mods()))
    ctx.sample({'text': text, 'request': req})


def cfg():
    return gp.GenCfg(min_len=1, max_len=12, letters=LETTERS,
                     weights={'int': 2, 'float': 3, 'formula': 2, 'unimod-name': 3, 'unimod-acc': 1},
                     p_labile=0.0, p_unknown=0.0, p_interval=0.0, p_charge=0.0, p_isotope=0.2,
                     labels=['13C', '15N', '18O', 'D', '34S', '2H', 'T', '17O'], p_static=0.3, p_static_term=0.35,
                     p_tag=0.0, p_alt=0.0, p_mult=0.1)


def run(ctx):
    st = State()
    pt = install(ctx, st)
    ctx.enable_disturb(pt, 0.03)     # other legitimate library calls interleaved between cases (vf.gen.disturb)
    g = cfg()
    for _ in range(ctx.n(4000, 100000)):
        p = gp.gen_pep(ctx.rng, g)
        req = gen_request(ctx.rng, len(p.seq))
        run_case(ctx, st, pt, p, req)
    ctx.extra['ions_checked'] = st.ions_checked


def reproduce(kf_id):
    import peptacular as pt
    if kf_id == 'K3':
        f = pt.fragment('<[10]@N-Term>PEP', 'b', 1)[0]
        return abs(f.mass - pt.mass(f.sequence, charge=1, ion_type='b')) > 1e-6
    if kf_id == 'K4':
        f = pt.fragment('<13C>PEP', 'a', 1)[0]
        return abs(f.mass - pt.mass(f.sequence, charge=1, ion_type='a')) > 1e-6
    return None


def replay(ctx, case):
    st = State()
    pt = install(ctx, st)
    run_case(ctx, st, pt, rp.from_json(case['pep']), case['request'])
