"""C11 - reordering and cutting a peptide moves modifications with their residues."""
from vf.gen import pep as gp
from vf.ref import pep as rp
from vf.ref import reorder as ro

PA = 'peptacular.proforma.proforma_parser.ProFormaAnnotation.'
DECIDING = [PA + 'slice', PA + 'reverse', PA + 'shift']
RULE = ('post-conditions on ProFormaAnnotation.reverse/shift/shuffle/sort_residues/slice/split (any depth: also the '
        'calls digest, fragment, split, the module-level string functions make) evaluated against index-map models '
        'applied to the dump of the argument; top-level workload: generated annotations of length 1..25 (all kinds, '
        'intervals at start/middle/end/adjacent) x every shift in [-2n,2n] x seeds x every 0<=i<=j<=n x inplace both, '
        'plus the identities reverse.reverse, shift(k).shift(-k), shift(n), slice.slice, mass invariance and re-parse of '
        'slices. signature = (operation, modification placements, interval class, inplace); non-trivial = the '
        'annotation has a residue modification or an interval')
ASSUMPTIONS = ['interval clauses of slice are judged only when no slice end falls strictly inside an interval',
               'shuffle and sort are judged on interval-free annotations (the statement does not say what an interval '
               'means after an arbitrary permutation)']
LEVEL_TEXT = ('Every slice/reverse/shift/sort/shuffle/split execution observed (top-level and nested) is compared '
              'with an index-map model of the argument dump; held on the executions observed.')
TECHNIQUE = 'runtime monitoring: snapshot+ensure contracts on annotation methods with index-map models'

LETTERS = list('ACDEFGHIKLMNPQRSTVWY')


class State:
    def __init__(self):
        self.n = {}
        self.reported = set()


def install(ctx, st: State, decide_nested=True):
    import peptacular as pt
    from peptacular.proforma.proforma_parser import parse as parse0

    def count(k):
        st.n[k] = st.n.get(k, 0) + 1

    def viol(kind, detail, kf=None):
        key = (kind, kf)
        ctx.violation(kind, detail, kf=kf)

    def pre_self(args, kwargs):
        return rp.observed_fields(args[0])

    def result_dump(call):
        inplace = call.arg(call_inplace_index[call.name], 'inplace', False)
        return rp.observed_fields(call.args[0] if inplace else call.result), inplace

    call_inplace_index = {PA + 'slice': 3, PA + 'shift': 2, PA + 'shuffle': 2, PA + 'reverse': 1,
                          PA + 'sort_residues': 1}

    def text_of(call):
        try:
            return pt.serialize(call.args[0])
        except Exception:
            return repr(call.pre)[:200]

    def slice_post(call):
        d = call.pre
        n = len(d['sequence'])
        i = call.arg(1, 'start')
        j = call.arg(2, 'stop')
        i = 0 if i is None else i
        j = n if j is None else j
        if not (0 <= i <= j <= n):
            return
        got, inplace = result_dump(call)
        exp = ro.slice_(d, i, j)
        cut = ro.cuts_interval(d, i, j)
        if cut:
            exp.pop('intervals')
            got = dict(got)
            got.pop('intervals')
        count('slice')
        ctx.decided()
        diff = rp.diff_fields(exp, got)
        if diff:
            viol('slice-differs-from-model', {'before': d, 'start': i, 'stop': j, 'inplace': inplace, 'diff': diff,
                                              'depth': call.depth})
            return
        if not cut and j > i and not inplace:
            # a non-empty slice re-parses to itself
            count('slice-reparse')
            ctx.decided()
            try:
                s = call.result.serialize()
                back = parse0(s)
                if rp.observed_fields(back) != got or not (back == call.result):
                    viol('slice-does-not-reparse-to-itself', {'before': d, 'start': i, 'stop': j, 'serialized': s})
            except Exception as ex:
                viol('slice-does-not-reparse-to-itself', {'before': d, 'start': i, 'stop': j,
                                                          'exception': f'{type(ex).__name__}: {ex}'[:200]})

    def reverse_post(call):
        d = call.pre
        swap = call.arg(2, 'swap_terms', False)
        got, inplace = result_dump(call)
        exp = ro.reverse(d, swap)
        count('reverse')
        ctx.decided()
        diff = rp.diff_fields(exp, got)
        if diff:
            viol('reverse-differs-from-model', {'before': d, 'swap_terms': swap, 'inplace': inplace, 'diff': diff,
                                                'depth': call.depth})

    def shift_post(call):
        d = call.pre
        k = call.arg(1, 'n')
        got, inplace = result_dump(call)
        exp = ro.shift(d, k)
        count('shift')
        ctx.decided()
        if exp is None:
            # an interval wraps around: no representation exists; only the residue clause is judged
            exp = ro.shift(dict(d, intervals=None), k)
            got = dict(got)
            exp.pop('intervals')
            got.pop('intervals')
            count('shift-interval-wraps')
        diff = rp.diff_fields(exp, got)
        if diff:
            viol('shift-differs-from-model', {'before': d, 'n': k, 'inplace': inplace, 'diff': diff,
                                              'depth': call.depth})

    def sort_post(call):
        d = call.pre
        got, inplace = result_dump(call)
        exp = ro.sort_residues(d)
        if d['intervals']:
            exp.pop('intervals')
            got = dict(got)
            got.pop('intervals')
        count('sort')
        ctx.decided()
        diff = rp.diff_fields(exp, got)
        if diff:
            viol('sort-differs-from-model', {'before': d, 'inplace': inplace, 'diff': diff, 'depth': call.depth})

    def shuffle_post(call):
        d = call.pre
        got, inplace = result_dump(call)
        count('shuffle')
        ctx.decided()
        bad = {}
        if ro.residue_multiset(got) != ro.residue_multiset(d):
            bad['residues'] = 'multiset of (residue, own modifications) changed'
        for f in ('labile', 'static', 'isotope', 'unknown', 'nterm', 'cterm', 'charge', 'adducts'):
            if got[f] != d[f]:
                bad[f] = {'before': d[f], 'after': got[f]}
        if bad:
            viol('shuffle-not-a-permutation', {'before': d, 'after': got, 'problems': bad, 'depth': call.depth})

    def split_post(call):
        d = call.pre
        pieces = call.result
        n = len(d['sequence'])
        count('split')
        ctx.decided()
        if len(pieces) != n:
            viol('split-wrong-number-of-pieces', {'before': d, 'pieces': len(pieces)})
            return
        for i, pc in enumerate(pieces):
            exp = ro.slice_(d, i, i + 1)
            if i != 0:
                exp['labile'] = None
            got = rp.observed_fields(pc)
            if ro.cuts_interval(d, i, i + 1):
                exp.pop('intervals')
                got.pop('intervals')
            diff = rp.diff_fields(exp, got)
            if diff:
                viol('split-piece-differs-from-model', {'before': d, 'index': i, 'diff': diff, 'depth': call.depth})
                return

    ctx.eng.attach(PA + 'slice', post=slice_post, pre=pre_self)
    ctx.eng.attach(PA + 'reverse', post=reverse_post, pre=pre_self)
    ctx.eng.attach(PA + 'shift', post=shift_post, pre=pre_self)
    ctx.eng.attach(PA + 'sort_residues', post=sort_post, pre=pre_self)
    ctx.eng.attach(PA + 'shuffle', post=shuffle_post, pre=pre_self)
    ctx.eng.attach(PA + 'split', post=split_post, pre=pre_self, materialize=True)
    return pt


def interval_class(p):
    if not p.intervals:
        return 'none'
    n = len(p.seq)
    cls = set()
    for iv in p.intervals:
        cls.add('start' if iv.start == 0 else 'end' if iv.end == n else 'middle')
    ends = sorted(iv.end for iv in p.intervals)
    starts = sorted(iv.start for iv in p.intervals)
    if set(ends) & set(starts):
        cls.add('adjacent')
    return sorted(cls)


def run_case(ctx, st, pt, p, heavy=True):
    text = rp.write(p)
    ctx.begin({'text': text})
    n = len(p.seq)
    rng = ctx.rng
    try:
        a = pt.parse(text)
    except Exception as ex:
        ctx.violation('valid-string-rejected', {'text': text, 'exception': type(ex).__name__})
        return
    d0 = rp.observed_fields(a)

    def same(x, what, **info):
        ctx.decided()
        got = rp.observed_fields(x)
        if got != d0:
            kf = None
            diff = rp.diff_fields(d0, got)
            if info.get('wraps') and set(diff) == {'intervals'}:
                # K6: only the interval that wrapped around under shift(k) differs; residues and all other fields agree
                kf = 'K6'
            ctx.violation(what, dict(info, text=text, diff=diff), kf=kf)

    def wraps(k):
        return ro.shift(d0, k) is None

    try:
        # reverse
        r = a.reverse()
        same(r.reverse(), 'reverse-twice-not-identity')
        for swap in (False, True, 1):      # a flag is a flag: 1 from a config file asks for the swap as True does
            rs = a.reverse(swap_terms=swap)
            b = a.copy()
            b.reverse(inplace=True, swap_terms=swap)
            ctx.decided()
            if rp.observed_fields(b) != rp.observed_fields(rs):
                ctx.violation('inplace-differs-from-copy', {'text': text, 'operation': 'reverse', 'swap_terms': swap})
            same(rs.reverse(swap_terms=swap), 'reverse-twice-not-identity', swap_terms=swap)
        pt.reverse(text, swap_terms=rng.random() < 0.5)
        # shifts
        ks = range(-2 * n, 2 * n + 1) if heavy else [rng.randint(-2 * n, 2 * n) for _ in range(3)] + [n, 0, -n]
        for k in ks:
            s = a.shift(k)
            same(s.shift(-k), 'shift-k-then-minus-k-not-identity', k=k, wraps=wraps(k))
            if k % max(n, 1) == 0:
                same(s, 'shift-by-multiple-of-length-not-identity', k=k)
        b = a.copy()
        k = rng.randint(-n, n)
        b.shift(k, inplace=True)
        ctx.decided()
        if rp.observed_fields(b) != rp.observed_fields(a.shift(k)):
            ctx.violation('inplace-differs-from-copy', {'text': text, 'operation': 'shift', 'k': k})
        pt.shift(text, rng.randint(-n, n))
        # shuffle / sort (interval-free view)
        if not p.intervals:
            for seed in (0, rng.randint(1, 10 ** 6)):
                s1 = a.shuffle(seed=seed)
                s2 = a.shuffle(seed=seed)
                ctx.decided()
                if rp.observed_fields(s1) != rp.observed_fields(s2):
                    ctx.violation('shuffle-not-deterministic-for-seed', {'text': text, 'seed': seed})
                b = a.copy()
                b.shuffle(seed=seed, inplace=True)
                ctx.decided()
                if rp.observed_fields(b) != rp.observed_fields(s1):
                    ctx.violation('inplace-differs-from-copy', {'text': text, 'operation': 'shuffle', 'seed': seed})
            pt.shuffle(text, seed=5)
            so = a.sort_residues()
            b = a.copy()
            b.sort_residues(inplace=True)
            ctx.decided()
            if rp.observed_fields(b) != rp.observed_fields(so):
                ctx.violation('inplace-differs-from-copy', {'text': text, 'operation': 'sort_residues'})
            pt.sort(text)
            # total mass is unchanged by a permutation
            if all(m.mono is not None for m in p.all_mods()) and 'B' not in p.seq and 'Z' not in p.seq:
                try:
                    m0 = pt.mass(a)
                    for x, nm in ((r, 'reverse'), (so, 'sort'), (s1, 'shuffle'), (a.shift(1), 'shift')):
                        ctx.decided()
                        if abs(pt.mass(x) - m0) > 1e-6:
                            ctx.violation('mass-changed-by-permutation', {'text': text, 'operation': nm})
                except Exception as ex:
                    ctx.note('mass_raises:' + type(ex).__name__)
        # slices
        pairs = [(i, j) for i in range(n + 1) for j in range(i, n + 1)]
        if not heavy and len(pairs) > 40:
            pairs = rng.sample(pairs, 40)
        for (i, j) in pairs:
            sl = a.slice(i, j)
            b = a.copy()
            b.slice(i, j, inplace=True)
            ctx.decided()
            if rp.observed_fields(b) != rp.observed_fields(sl):
                ctx.violation('inplace-differs-from-copy', {'text': text, 'operation': 'slice', 'start': i, 'stop': j,
                                                            'copy': rp.observed_fields(sl),
                                                            'inplace': rp.observed_fields(b)})
            if j - i >= 2 and not ro.cuts_interval(d0, i, j):
                # slice of a slice is the slice of the summed offsets
                u = rng.randint(0, j - i)
                v = rng.randint(u, j - i)
                if not ro.cuts_interval(rp.observed_fields(sl), u, v) and not ro.cuts_interval(d0, i + u, i + v):
                    ctx.decided()
                    if rp.observed_fields(sl.slice(u, v)) != rp.observed_fields(a.slice(i + u, i + v)):
                        ctx.violation('slice-of-slice-differs', {'text': text, 'outer': [i, j], 'inner': [u, v]})
        a.slice(None, None)
        # default bounds combined with an explicit one (judged by the slice contract with the defaults of the signature)
        k0 = rng.randint(0, n)
        a.slice(k0, None)
        a.slice(None, k0)
        a.copy().slice(k0, None, inplace=True)
        a.copy().slice(None, k0, inplace=True)
        # the same operations on an annotation whose modification dictionary is not in residue order (as left behind
        # by reverse / shuffle): the contracts on slice/split judge these executions with the same model
        rr = a.reverse()
        for (i, j) in (pairs if len(pairs) <= 12 else rng.sample(pairs, 12)):
            rr.slice(i, j)
        list(rr.split())
        if not p.intervals:
            sh = a.shuffle(seed=11)
            list(sh.split())
            sh.slice(0, max(1, n // 2))
        pt.span_to_sequence(text, (0, n, 0))
        list(a.split())
        pt.split(text)
        pt.count_residues(text)
    except Exception as ex:
        ctx.decided()
        ctx.violation('operation-raises', {'text': text, 'exception': f'{type(ex).__name__}: {ex}'[:300]})
    ctx.sig((p.features(), interval_class(p), 'heavy' if heavy else 'light'), bool(p.res or p.intervals))
    ctx.sample({'text': text})


def cfg(max_len, letters=None):
    return gp.GenCfg(min_len=1, max_len=max_len, letters=letters or LETTERS, weights=dict(gp.W_SIMPLE), p_res=0.3,
                     p_interval=0.45, p_charge=0.2, p_isotope=0.15, p_static=0.2, p_labile=0.2, p_unknown=0.15,
                     p_tag=0.03, p_alt=0.03, p_mult=0.1)


def run(ctx):
    st = State()
    pt = install(ctx, st)
    ctx.enable_disturb(pt, 0.01)     # other legitimate library calls interleaved between cases (vf.gen.disturb)
    small, big = cfg(9), cfg(25)
    all26 = LETTERS + list('BJOUXZ')     # the ambiguous and rare letters too (mass invariance is skipped where mass() raises)
    small26, big26 = cfg(9, all26), cfg(25, all26)
    for i in range(ctx.n(5000, 100000)):
        heavy = i % 4 != 0
        if i % 5 == 4:
            p = gp.gen_pep(ctx.rng, small26 if heavy else big26)
        else:
            p = gp.gen_pep(ctx.rng, small if heavy else big)
        run_case(ctx, st, pt, p, heavy)
    # protein-sized annotations (257..320 residues: past the small-integer cache, past every block size a helper might
    # use): the same contracts judge a handful of slices, the split, a reverse and a shift
    longc = gp.GenCfg(min_len=257, max_len=320, letters=LETTERS, weights=dict(gp.W_SIMPLE), p_res=0.03, p_interval=0.3,
                      p_charge=0.2, p_isotope=0.15, p_static=0.2, p_labile=0.2, p_unknown=0.15, p_nterm=0.7,
                      p_cterm=0.9, p_tag=0, p_alt=0, p_mult=0.1)
    for _ in range(ctx.n(48, 800)):
        p = gp.gen_pep(ctx.rng, longc)
        text = rp.write(p)
        ctx.begin({'text': text, 'driver': 'long'})
        n = len(p.seq)
        try:
            a = pt.parse(text)
            d0 = rp.observed_fields(a)
            for i in (0, 2, ctx.rng.randrange(n)):
                a.slice(i, n)
                a.slice(i, None)
                a.copy().slice(i, n, inplace=True)
            a.slice(0, ctx.rng.randrange(n))
            pieces = list(a.split())
            ctx.decided()
            if len(pieces) != n or (p.cterm and not pieces[-1].has_cterm_mods()) or \
                    (p.nterm and not pieces[0].has_nterm_mods()):
                ctx.violation('split-loses-a-terminal-modification', {'text': text, 'pieces': len(pieces)})
            ctx.decided()
            if rp.observed_fields(a.reverse().reverse()) != d0:
                ctx.violation('reverse-twice-not-identity', {'text': text})
            a.shift(ctx.rng.randint(-n, n))
        except Exception as ex:
            ctx.violation('operation-raises', {'text': text[:300], 'exception': f'{type(ex).__name__}: {ex}'[:200]})
        ctx.sig(('long', p.features()), True)
    # nested executions: drive digest / fragment so that their slice/split calls are judged too
    for _ in range(ctx.n(600, 20000)):
        p = gp.gen_pep(ctx.rng, cfg(14))
        text = rp.write(p)
        ctx.begin({'text': text, 'driver': 'digest+fragment'})
        try:
            list(pt.digest(text, 'trypsin/P', 1, return_type='annotation'))
            if not p.intervals and not p.unknown:
                pt.fragment(text, ['b', 'y', 'by'], 1)
            pt.condense_to_mass_mods(text)
        except Exception as ex:
            ctx.note('driver_raises:' + type(ex).__name__)
    for k, v in st.n.items():
        ctx.extra['decisions_' + k] = v


def reproduce(kf_id):
    import peptacular as pt
    if kf_id == 'K6':
        a = pt.parse('PE(PTI)DE')
        return rp.observed_fields(a.shift(3).shift(-3)) != rp.observed_fields(a)
    return None


def replay(ctx, case):
    st = State()
    pt = install(ctx, st)
    import random
    from vf.ref.pep import Pep
    text = case['text']
    a = pt.parse(text)
    n = len(a)
    a.reverse().reverse()
    for k in range(-2 * n, 2 * n + 1):
        a.shift(k).shift(-k)
    for i in range(n + 1):
        for j in range(i, n + 1):
            a.slice(i, j)
            b = a.copy()
            b.slice(i, j, inplace=True)
            if rp.observed_fields(b) != rp.observed_fields(a.slice(i, j)):
                ctx.violation('inplace-differs-from-copy', {'text': text, 'operation': 'slice', 'start': i, 'stop': j})
    list(a.split())
    if not a.intervals:
        a.sort_residues()
        a.shuffle(seed=1)
