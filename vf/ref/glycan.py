"""Exhaustive segmentation of written glycan strings into (known name, count) tokens."""
import re
from functools import lru_cache
from typing import Dict, List, Tuple

from vf.ref import obo

_COUNT = re.compile(r'[+-]?\d+(?:\.\d+)?')


@lru_cache(maxsize=1)
def names() -> Tuple[str, ...]:
    return tuple(sorted(obo.mono_names(), key=len, reverse=True))


def segmentations(text: str, limit: int = 3, explicit_counts: bool = True) -> List[List[Tuple[str, str]]]:
    """All ways to read `text` as a sequence of name+count tokens, up to `limit`.
    explicit_counts=True: every name must be followed by a count (the form the generator writes);
    False: a count may be omitted (meaning 1)."""
    out: List[List[Tuple[str, str]]] = []

    def rec(pos: int, acc: List[Tuple[str, str]]):
        if len(out) >= limit:
            return
        if pos == len(text):
            out.append(list(acc))
            return
        for nm in names():
            if text.startswith(nm, pos):
                p2 = pos + len(nm)
                m = _COUNT.match(text, p2)
                if m:
                    # a count may be read fully, or (when digits could start another name) not at all
                    acc.append((nm, m.group(0)))
                    rec(m.end(), acc)
                    acc.pop()
                if not explicit_counts:
                    acc.append((nm, ''))
                    rec(p2, acc)
                    acc.pop()

    rec(0, [])
    return out


def unambiguous(text: str, explicit_counts: bool = True) -> bool:
    return len(segmentations(text, 2, explicit_counts)) == 1


def greedy(text: str):
    """Maximal-munch reading (longest known name first, then the longest count); None if it gets stuck."""
    out, pos = [], 0
    while pos < len(text):
        for nm in names():
            if text.startswith(nm, pos):
                pos += len(nm)
                j = pos
                while j < len(text) and (text[j].isdigit() or text[j] in '+-.'):
                    j += 1
                out.append((nm, text[pos:j]))
                pos = j
                break
        else:
            return None
    return out
