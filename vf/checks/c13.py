"""C13 - static and variable modification builders produce exactly the intended forms."""
import itertools
import re
from collections import Counter

from vf.gen import pep as gp
from vf.ref import pep as rp
from vf.ref.pep import M, Pep

DECIDING = ['peptacular.sequence.mod_builder.apply_static_mods', 'peptacular.sequence.mod_builder.apply_variable_mods']
RULE = ('peptides of length 1..10 with pre-existing residue/terminal modifications; rule sets of 1..3 residue or consuming-'
        'regex targets (with look-around) with 1..3 alternative modification groups; N-/C-terminal rules with and without '
        'residue conditions; max_mods 0..4; three conflict modes; both return types. apply_static_mods is compared with '
        'the site model (matched sites by anchored match at every position; skip/append/overwrite w.r.t. pre-existing '
        'modifications; second skip application changes nothing); apply_variable_mods in skip mode with the exhaustive '
        'subset enumeration (<= max_mods additional eligible sites, one offered group each, x offered terminal choices) as '
        'multisets; in append/overwrite mode: residues kept, changes confined to matched sites, input form present, no '
        'form twice. signature = (function, mode, #rules, target kinds, terminal rules, max_mods, pre-modified); '
        'non-trivial = at least one matched site')
ASSUMPTIONS = ['a purely zero-width target (look-around only) selects the residue that ends at the matched boundary - the '
               'library\'s reading, the same as for cleavage sites; the boundary in front of the first residue selects nothing',
               'rules of one call are generated with pairwise disjoint matched sites']
LEVEL_TEXT = ('Every apply_static_mods/apply_variable_mods execution is compared with an independent site matcher and an '
              'exhaustive subset enumeration; held on the executions observed.')
TECHNIQUE = 'runtime monitoring: post-conditions with an exhaustive subset-enumeration model'

LETTERS = list('ACDEKPST')
TARGETS = ['P', 'K', 'S', 'T', 'E', 'C', 'D', 'A', '[ST]', '(?<=P)E', 'K(?!P)', 'PE', '(?<=[KR])S', 'T(?=A)', '[DE]',
           '(?<!^)C', 'A$', '^K', '.', '[^P]', '[A-Z]']
MODVALS = ['Phospho', 'Acetyl', 'Oxidation', 1.5, 2, 'Methyl', 79.966, 'Carbamidomethyl', -18]


ZERO_TARGETS = ['(?=P)', '(?<=K)', '(?<=[ST])(?!P)', '(?=[DE])', '(?<=^.)']


def sites_of(seq: str, pattern: str):
    """consuming match starting at i -> residue i; zero-width match at boundary i -> the residue that ends there
    (i - 1), none for the boundary in front of the first residue"""
    rx = re.compile(pattern)
    out = []
    for i in range(len(seq) + 1):
        m = rx.match(seq, i)
        if m is None:
            continue
        if m.end() > m.start():
            if i < len(seq):
                out.append(i)
        elif i >= 1 and pattern in ZERO_TARGETS:
            out.append(i - 1)
    return out


def is_zero_width_somewhere(seq: str, pattern: str) -> bool:
    rx = re.compile(pattern)
    for i in range(len(seq) + 1):
        m = rx.match(seq, i)
        if m is not None and m.end() == m.start():
            return True
    return False


def pairs(vals):
    return sorted(((rp.canonical(v), 1) for v in vals), key=repr)


class State:
    def __init__(self):
        self.case = None


def install(ctx, st: State):
    import peptacular as pt

    def post(call):
        if call.depth == 0 and st.case is not None:
            st.case['result'] = call.result

    ctx.eng.attach('peptacular.sequence.mod_builder.apply_static_mods', post=post)
    ctx.eng.attach('peptacular.sequence.mod_builder.apply_variable_mods', post=post)
    return pt


def as_input(pt, rng, text):
    """the peptide as text, as a parsed annotation, or as the annotation a digest/slice/pop_internal_mod hands over (an
    empty residue-modification dictionary instead of None)"""
    r = rng.random()
    if r < 0.55:
        return text
    if r < 0.8:
        return pt.parse(text)
    return rp.hollowed(pt, text)


def base_fields(p: Pep) -> dict:
    return rp.expected_fields(p)


def same_group(g, gs):
    """two offered groups that are permutations of each other are one group written twice: the forms they give
    carry the same modifications on the same residue, and 'no form twice' would be undecidable by the statement"""
    return any(sorted(map(repr, g)) == sorted(map(repr, h)) for h in gs)


def gen_rules(rng, seq, n_rules, groups=False):
    """{pattern: mods | [groups]}; variable rules (groups) have disjoint sites, static rules may overlap"""
    rules, used = {}, set()
    offered_at = {}      # site -> groups already offered there by earlier variable rules
    pool = TARGETS + (ZERO_TARGETS if rng.random() < 0.3 else [])
    for pat in rng.sample(pool, len(pool)):
        if len(rules) >= n_rules:
            break
        if pat not in ZERO_TARGETS and is_zero_width_somewhere(seq, pat):
            continue
        s = set(sites_of(seq, pat))
        if s & used and rng.random() < (0.6 if groups else 0.5):
            continue   # rules may hit a site twice: static rules both apply (in rule order), variable rules offer the
            #            union of their groups there
        if not s and rng.random() < 0.7:
            continue
        used |= s
        if groups:
            k = rng.choice([1, 1, 2, 3])
            gs = []
            already = [g0 for i in s for g0 in offered_at.get(i, [])]
            for _ in range(k):
                g = rng.sample(MODVALS, rng.choice([1, 1, 2]))
                if not same_group(g, gs) and not same_group(g, already):   # one group is never offered twice at a site
                    gs.append(g)
            if not gs:
                continue
            for i in s:
                offered_at.setdefault(i, []).extend(gs)
            rules[pat] = gs
        else:
            rules[pat] = rng.sample(MODVALS, rng.choice([1, 1, 2]))
    return rules


def spelled(pt, rng, spec, groups):
    """The same rule set written in another of the documented input shapes: a modification as a Mod object, a
    one-group rule as a flat list, a one-modification rule as a bare value."""
    def elem(v):
        return pt.Mod(v, 1) if rng.random() < 0.25 else v

    def flat(g):
        g2 = [elem(v) for v in g]
        return g2[0] if len(g2) == 1 and rng.random() < 0.3 else g2

    if spec is None:
        return None
    if isinstance(spec, dict):
        return {k: spelled(pt, rng, v, groups) for k, v in spec.items()}
    if isinstance(spec, list) and spec and all(isinstance(g, list) for g in spec):
        if len(spec) == 1 and rng.random() < 0.35:
            return flat(spec[0])
        return [[elem(v) for v in g] for g in spec]
    if isinstance(spec, list):
        return flat(spec)
    return elem(spec)


def gen_term(rng, seq, end, groups=False):
    """terminal rule spec and the list of groups that apply to this sequence"""
    r = rng.random()
    if r < 0.45:
        return None, []
    gs = []
    for _ in range(rng.choice([1, 1, 2]) if groups else 1):
        g = rng.sample(MODVALS, rng.choice([1, 1, 2]))
        if not same_group(g, gs):
            gs.append(g)
    if r < 0.75:
        # unconditional: plain value / list
        spec = gs if groups else gs[0]
        if groups and len(gs) == 1 and rng.random() < 0.5:
            spec = gs[0]
        return spec, gs
    # with a residue condition
    cond = rng.choice(['P', 'K', 'A', 'S', '[ST]', 'E', '.', '[^P]'])
    target = seq[0] if end == 'n' else seq[-1]
    applies = bool(re.fullmatch(cond, target))
    return {cond: (gs if groups else gs[0])}, (gs if applies else [])


def premod_pep(rng, cfg):
    p = gp.gen_pep(rng, cfg)
    return p


def static_expected(p: Pep, rules, nspec_groups, cspec_groups, mode):
    exp = base_fields(p)
    internal = dict(exp['internal'] or {})
    for pat, mods in rules.items():
        for i in sites_of(p.seq, pat):
            pre = (base_fields(p)['internal'] or {}).get(i)
            if pre is None:
                internal[i] = sorted((internal.get(i) or []) + pairs(mods), key=repr)
            elif mode == 'overwrite':
                internal[i] = pairs(mods)
            elif mode == 'append':
                internal[i] = sorted(internal[i] + pairs(mods), key=repr)
    exp['internal'] = dict(sorted(internal.items())) or None
    for key, groups in (('nterm', nspec_groups), ('cterm', cspec_groups)):
        for g in groups:
            pre = base_fields(p)[key]
            if pre is None:
                exp[key] = sorted((exp[key] or []) + pairs(g), key=repr)
            elif mode == 'overwrite':
                exp[key] = pairs(g)
            elif mode == 'append':
                exp[key] = sorted(exp[key] + pairs(g), key=repr)
    return exp


def run_static(ctx, st, pt, p: Pep):
    rng = ctx.rng
    text = rp.write(p)
    rules = gen_rules(rng, p.seq, rng.randint(1, 3))
    nspec, ngroups = gen_term(rng, p.seq, 'n')
    cspec, cgroups = gen_term(rng, p.seq, 'c')
    mode = rng.choice(['skip', 'append', 'overwrite'])
    rt = rng.choice(['str', 'annotation'])
    case = {'fn': 'static', 'pep': rp.to_json(p), 'text': text, 'rules': rules, 'nterm': nspec, 'cterm': cspec,
            'mode': mode, 'return_type': rt}
    ctx.begin(case)
    import copy
    st.case = {}
    try:
        sp = (spelled(pt, rng, rules, False) or None, spelled(pt, rng, nspec, False), spelled(pt, rng, cspec, False))
        case['as_passed'] = repr(sp)
        pt.apply_static_mods(as_input(pt, rng, text), sp[0], sp[1], sp[2], mode, rt)
    except Exception as ex:
        ctx.decided()
        ctx.violation('apply_static_mods-raises', {'case': {k: v for k, v in case.items() if k != 'pep'},
                                                   'exception': f'{type(ex).__name__}: {ex}'[:300]})
        st.case = None
        return
    res = st.case.get('result')
    st.case = None
    if res is None:
        ctx.inconclusive_case('monitor not reached')
        return
    ctx.decided()
    if isinstance(res, str) != (rt == 'str'):
        ctx.violation('return-type-differs-from-request', {'case': {k: v for k, v in case.items() if k != 'pep'},
                                                           'returned': type(res).__name__})
        return
    a = pt.parse(res) if isinstance(res, str) else res
    exp = static_expected(p, rules, ngroups, cgroups, mode)
    d = rp.diff_fields(exp, rp.observed_fields(a))
    if d:
        ctx.violation('static-result-differs-from-site-model', {'case': {k: v for k, v in case.items() if k != 'pep'},
                                                                'diff': d})
    elif mode == 'skip':
        # applying it again in skip mode changes nothing more
        ctx.decided()
        try:
            again = pt.apply_static_mods(a.serialize(), copy.deepcopy(rules) or None, copy.deepcopy(nspec),
                                         copy.deepcopy(cspec), 'skip', 'annotation')
        except Exception as ex:
            ctx.violation('apply_static_mods-raises', {'case': {k: v for k, v in case.items() if k != 'pep'},
                                                       'second_application': True,
                                                       'exception': f'{type(ex).__name__}: {ex}'[:300]})
            return
        if isinstance(again, str):
            ctx.violation('return-type-differs-from-request', {'case': {k: v for k, v in case.items() if k != 'pep'},
                                                               'second_application': True, 'returned': 'str'})
            return
        if rp.observed_fields(again) != rp.observed_fields(a):
            ctx.violation('second-skip-application-changes-result', {'case': {k: v for k, v in case.items() if k != 'pep'},
                                                                     'first': a.serialize(), 'second': again.serialize()})
    matched = sum(len(sites_of(p.seq, pat)) for pat in rules)
    ctx.sig(('static', mode, len(rules), sorted({('letter' if len(t) == 1 else 'regex') for t in rules}),
             nspec is not None, cspec is not None, isinstance(nspec, dict) or isinstance(cspec, dict), bool(p.res),
             bool(p.nterm or p.cterm), rt), matched > 0 or bool(ngroups or cgroups))
    ctx.sample({k: v for k, v in case.items() if k != 'pep'})


def variable_expected(p: Pep, rules, ngroups, cgroups, max_mods):
    """multiset of expected forms (as hashable dumps) in skip mode"""
    base = base_fields(p)
    offered = {}
    for pat, gs in rules.items():
        for i in sites_of(p.seq, pat):
            if (base['internal'] or {}).get(i) is None:
                offered.setdefault(i, []).extend(gs)
    nchoices = [None] + (list(ngroups) if base['nterm'] is None else [])
    cchoices = [None] + (list(cgroups) if base['cterm'] is None else [])
    forms = Counter()
    sites = sorted(offered)
    for k in range(0, min(max_mods, len(sites)) + 1):
        for subset in itertools.combinations(sites, k):
            for assignment in itertools.product(*[range(len(offered[s])) for s in subset]):
                for ng in nchoices:
                    for cg in cchoices:
                        f = dict(base)
                        internal = dict(base['internal'] or {})
                        for s, gi in zip(subset, assignment):
                            internal[s] = pairs(offered[s][gi])
                        f['internal'] = dict(sorted(internal.items())) or None
                        if ng is not None:
                            f['nterm'] = pairs(ng)
                        if cg is not None:
                            f['cterm'] = pairs(cg)
                        forms[repr(sorted(f.items(), key=lambda kv: kv[0]))] += 1
    return forms


def count_forms(p, rules, ngroups, cgroups, max_mods, mode):
    """upper estimate of the number of forms (a cost bound for the workload, not an oracle)"""
    base = base_fields(p)
    g, free = {}, 1
    for pat, gs in rules.items():
        for i in sites_of(p.seq, pat):
            if (base['internal'] or {}).get(i) is None:
                g[i] = g.get(i, 0) + len(gs)
            elif mode != 'skip':
                g[('pre', i)] = g.get(('pre', i), 0) + len(gs)
    e = [1] + [0] * max_mods          # elementary symmetric polynomials of the group counts (unmodified sites)
    for k_, c in g.items():
        if isinstance(k_, tuple):
            free *= (1 + c)          # re-modifying an already modified residue is not counted against max_mods
            continue
        for k in range(max_mods, 0, -1):
            e[k] += e[k - 1] * c
    return sum(e) * free * (1 + len(ngroups)) * (1 + len(cgroups)) * (1 + len(ngroups)) * (1 + len(cgroups))


def form_key(a):
    return repr(sorted(rp.observed_fields(a).items(), key=lambda kv: kv[0]))


def run_variable(ctx, st, pt, p: Pep):
    import copy
    rng = ctx.rng
    text = rp.write(p)
    rules = gen_rules(rng, p.seq, rng.randint(1, 3), groups=True)
    nspec, ngroups = gen_term(rng, p.seq, 'n', groups=True)
    cspec, cgroups = gen_term(rng, p.seq, 'c', groups=True)
    max_mods = rng.randint(0, 4)
    mode = 'skip' if rng.random() < 0.7 else rng.choice(['append', 'overwrite'])
    # keep the enumeration bounded: lower max_mods until the expected number of forms is small
    while max_mods > 0 and count_forms(p, rules, ngroups, cgroups, max_mods, mode) > 1500:
        max_mods -= 1
    if count_forms(p, rules, ngroups, cgroups, max_mods, mode) > 20000:
        mode = 'skip'     # append/overwrite over many pre-modified sites grows exponentially whatever max_mods is
        while max_mods > 0 and count_forms(p, rules, ngroups, cgroups, max_mods, mode) > 1500:
            max_mods -= 1
    rt = rng.choice(['str', 'annotation'])
    case = {'fn': 'variable', 'pep': rp.to_json(p), 'text': text, 'rules': rules, 'nterm': nspec, 'cterm': cspec,
            'max_mods': max_mods, 'mode': mode, 'return_type': rt}
    ctx.begin(case)
    st.case = {}
    try:
        sp = (spelled(pt, rng, rules, True) or None, spelled(pt, rng, nspec, True), spelled(pt, rng, cspec, True))
        case['as_passed'] = repr(sp)
        pt.apply_variable_mods(as_input(pt, rng, text), sp[0], max_mods, sp[1], sp[2], mode, rt)
    except Exception as ex:
        ctx.decided()
        ctx.violation('apply_variable_mods-raises', {'case': {k: v for k, v in case.items() if k != 'pep'},
                                                     'exception': f'{type(ex).__name__}: {ex}'[:300]})
        st.case = None
        return
    res = st.case.get('result')
    st.case = None
    if res is None:
        ctx.inconclusive_case('monitor not reached')
        return
    anns = [pt.parse(x) if isinstance(x, str) else x for x in res]
    got = Counter(form_key(a) for a in anns)
    info = {k: v for k, v in case.items() if k != 'pep'}
    ctx.decided()
    if mode == 'skip':
        exp = variable_expected(p, rules, ngroups, cgroups, max_mods)
        if got != exp:
            missing = list((exp - got).keys())[:2]
            extra = list((got - exp).items())[:2]
            twice = [k for k, v in got.items() if v > 1][:2]
            ctx.violation('variable-forms-differ-from-enumeration',
                          {'case': info, 'expected_n': sum(exp.values()), 'observed_n': len(anns),
                           'missing': missing, 'extra_or_repeated': extra, 'repeated': twice,
                           'observed': [a.serialize() for a in anns][:12]})
    else:
        base = base_fields(p)
        matched = set()
        for pat in rules:
            matched |= set(sites_of(p.seq, pat))
        problems = []
        if any(v > 1 for v in got.values()):
            problems.append('a form is returned twice')
        if repr(sorted(base.items(), key=lambda kv: kv[0])) not in got:
            problems.append('the input form is missing')
        for a in anns:
            f = rp.observed_fields(a)
            if f['sequence'] != base['sequence']:
                problems.append('residues changed')
                break
            bi, fi = base['internal'] or {}, f['internal'] or {}
            if any(bi.get(i) != fi.get(i) for i in set(bi) | set(fi) if i not in matched):
                problems.append('a change outside the matched sites')
                break
            if any(f[k] != base[k] for k in ('labile', 'static', 'isotope', 'unknown', 'intervals', 'charge', 'adducts')):
                problems.append('a global annotation changed')
                break
        if problems:
            ctx.violation('variable-forms-break-' + mode + '-mode-clauses',
                          {'case': info, 'problems': problems, 'observed': [a.serialize() for a in anns][:12]})
    eligible = len({i for pat in rules for i in sites_of(p.seq, pat)})
    ctx.sig(('variable', mode, len(rules), max_mods, bool(ngroups), bool(cgroups), isinstance(nspec, dict),
             bool(p.res), min(eligible, 4), rt), eligible > 0 or bool(ngroups or cgroups))
    ctx.sample(info)


def cfg():
    return gp.GenCfg(min_len=1, max_len=10, letters=LETTERS, weights={'int': 1, 'float': 1, 'unimod-name': 2},
                     p_res=0.2, max_per_site=2, p_nterm=0.25, p_cterm=0.25, p_labile=0.1, p_unknown=0.05, p_static=0.1,
                     p_isotope=0.1, p_interval=0.1, p_charge=0.1, p_tag=0, p_alt=0, p_mult=0.05, p_static_term=0)


def run(ctx):
    st = State()
    pt = install(ctx, st)
    ctx.enable_disturb(pt, 0.03)     # other legitimate library calls interleaved between cases (vf.gen.disturb)
    g = cfg()
    for i in range(ctx.n(48000, 800000)):
        p = gp.gen_pep(ctx.rng, g)
        if ctx.rng.random() < 0.3:
            # pre-existing modifications drawn from the pool the rules offer: an offered group may equal what a residue
            # (or terminus) already carries - the overwrite/append corner of the 'no form twice' clause
            for k in list(p.res) or []:
                if ctx.rng.random() < 0.6:
                    p.res[k] = [M(str(v), kind='pool') for v in ctx.rng.sample(MODVALS, ctx.rng.choice([1, 1, 2]))]
            if not p.res and p.seq:
                p.res[ctx.rng.randrange(len(p.seq))] = [M(str(ctx.rng.choice(MODVALS)), kind='pool')]
            if p.nterm and ctx.rng.random() < 0.5:
                p.nterm = [M(str(ctx.rng.choice(MODVALS)), kind='pool')]
        if i % 2:
            run_static(ctx, st, pt, p)
        else:
            run_variable(ctx, st, pt, p)


def replay(ctx, case):
    st = State()
    pt = install(ctx, st)
    p = rp.from_json(case['pep'])
    print('replay re-draws the rule set from the shard RNG; recorded case:', {k: v for k, v in case.items() if k != 'pep'})
    kw = dict(mode=case['mode'], return_type=case['return_type'])
    if case['fn'] == 'static':
        print(pt.apply_static_mods(case['text'], case['rules'] or None, case['nterm'], case['cterm'], **kw))
    else:
        res = pt.apply_variable_mods(case['text'], case['rules'] or None, case['max_mods'], case['nterm'],
                                     case['cterm'], **kw)
        print([r if isinstance(r, str) else r.serialize() for r in res])
        ngroups = []
        print('expected number of forms (skip mode, no terminal rules):',
              sum(variable_expected(p, case['rules'], [], [], case['max_mods']).values()))
