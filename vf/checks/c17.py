"""C17 - spectrum matching pairs each fragment with exactly the peaks in tolerance."""
import math

DECIDING = ['peptacular.score.get_matched_indices', 'peptacular.score.match_spectra',
            'peptacular.score.get_fragment_matches']
RULE = ('pairs of sorted m/z lists of length 0..30 on a coarse binary-exact grid (ties, overlapping windows) and off-grid; '
        'tolerance type ppm/th; tolerance from 0 to larger than the whole range; modes all/closest/largest; post-conditions '
        'with a quadratic brute-force matcher that uses the same floating-point expressions for the window bounds; '
        'get_fragment_matches on shuffled fragment lists and spectra (35%: followed by a history on one spectrum - the same peak list objects edited in place between calls, the same m/z axis with other intensities), matched-intensity fraction, match coverage and the '
        'success count inside binomial_score. signature = (function, mode, tolerance type, tolerance class, list-length '
        'buckets, ties present, #matches bucket); non-trivial = at least one theoretical value has at least two peaks in window '
        'or the lists contain ties')
ASSUMPTIONS = ['inputs of get_matched_indices/match_spectra are sorted, as the statement requires',
               'the matched-intensity clause uses spectra without duplicate m/z values (distinct peaks are identified by m/z)']
LEVEL_TEXT = ('Every matching execution is compared with a quadratic brute-force matcher; held on the executions observed.')
TECHNIQUE = 'runtime monitoring: post-conditions with a brute-force matcher sharing the window arithmetic'


class State:
    def __init__(self):
        self.last = {}


def install(ctx, st: State):
    import peptacular as pt

    def mk(short):
        def post(call):
            if call.depth == 0:
                st.last[short] = ('ok', call.result)

        def on_raise(call):
            if call.depth == 0:
                st.last[short] = ('raise', f'{type(call.exc).__name__}: {call.exc}'[:160])
        return post, on_raise

    for short in ('get_matched_indices', 'match_spectra', 'get_fragment_matches', 'get_match_coverage',
                  'binomial_score', 'get_matched_intensity_percentage'):
        p, r = mk(short)
        ctx.eng.attach('peptacular.score.' + short, post=p, on_raise=r)
    return pt


def observe(st, pt, fn, *a, **k):
    st.last.pop(fn, None)
    try:
        getattr(pt, fn)(*a, **k)
    except Exception:
        pass
    return st.last.get(fn)


def fresh_str(rng, s):
    """half of the option strings are equal-but-not-identical objects, as a program gets them from a config file, a
    command line or JSON (a literal in source code is interned; a run-time built string is not)"""
    return ''.join(list(s)) if rng.random() < 0.5 else s


def window(mz1, tol, ttype):
    off = tol if ttype == 'th' else mz1 * tol / 1e6
    return mz1 - off, mz1 + off


def brute(theo, obs, tol, ttype):
    out = []
    for t in theo:
        lo, hi = window(t, tol, ttype)
        out.append([j for j, o in enumerate(obs) if lo <= o <= hi])
    return out


def gen_lists(rng):
    grid = rng.random() < 0.6
    def one(n):
        if grid:
            vals = [rng.randint(400, 460) * 0.25 for _ in range(n)]
        else:
            vals = [round(rng.uniform(100.0, 115.0), rng.choice([2, 4, 6])) for _ in range(n)]
        return sorted(vals)
    theo = one(rng.randint(0, 30) if rng.random() < 0.9 else 0)
    obs = one(rng.randint(0, 30) if rng.random() < 0.9 else 0)
    ttype = fresh_str(rng, rng.choice(['ppm', 'th']))
    r = rng.random()
    if ttype == 'th':
        tol = 0.0 if r < 0.15 else rng.choice([0.25, 0.5, 0.1, 0.01, 1.0, 2.5, 50.0]) if r < 0.8 else rng.uniform(0, 3)
    else:
        tol = 0.0 if r < 0.15 else rng.choice([2500.0, 5000.0, 10.0, 1000.0, 20000.0, 1e6]) if r < 0.8 else rng.uniform(0, 30000)
    return theo, obs, tol, ttype, grid


def check_matching(ctx, st, pt, theo, obs, tol, ttype, grid, rng):
    case = {'theoretical': theo, 'observed': obs, 'tolerance': tol, 'type': ttype}
    ctx.begin(case)
    exp = brute(theo, obs, tol, ttype)
    got = observe(st, pt, 'get_matched_indices', list(theo), list(obs), tol, ttype)
    ctx.decided()
    ok = got is not None and got[0] == 'ok' and len(got[1]) == len(theo)
    if ok:
        for e, g in zip(exp, got[1]):
            if (g is None) != (not e) or (g is not None and list(range(g[0], g[1])) != e):
                ok = False
                break
    if not ok:
        ctx.violation('matched-index-ranges-differ', {'case': case, 'expected': exp, 'observed': got})
        return
    inten = [round(rng.uniform(0, 100), 1) if rng.random() < 0.8 else rng.choice([10.0, 50.0]) for _ in obs]
    for mode in (fresh_str(rng, 'all'), fresh_str(rng, 'closest'), fresh_str(rng, 'largest')):
        got = observe(st, pt, 'match_spectra', list(theo), list(obs), tol, ttype, mode, list(inten))
        ctx.decided()
        bad = None
        if got is None or got[0] != 'ok' or len(got[1]) != len(theo):
            bad = 'wrong shape or exception'
        else:
            for t, e, g in zip(theo, exp, got[1]):
                if not e:
                    if g is not None:
                        bad = 'match reported where none exists'
                elif mode == 'all':
                    if g != e:
                        bad = 'not exactly the in-window indices'
                elif mode == 'closest':
                    if g not in e or abs(obs[g] - t) > min(abs(obs[j] - t) for j in e):
                        bad = 'not an in-window index of minimal distance'
                else:
                    if g not in e or inten[g] < max(inten[j] for j in e):
                        bad = 'not an in-window index of maximal intensity'
                if bad:
                    break
        if bad:
            ctx.violation('match_spectra-' + mode + '-wrong', {'case': case, 'intensities': inten, 'problem': bad,
                                                               'expected_windows': exp, 'observed': got})
    ties = len(set(theo)) < len(theo) or len(set(obs)) < len(obs)
    span = (max(theo + obs) - min(theo + obs)) if (theo or obs) else 0
    tclass = 'zero' if tol == 0 else 'huge' if (ttype == 'th' and tol > span) or (ttype == 'ppm' and tol >= 1e6) else 'mid'
    nm = sum(1 for e in exp if e)
    ctx.sig(('match', ttype, tclass, 'grid' if grid else 'free', min(len(theo), 3), min(len(obs), 3), ties, min(nm, 4),
             any(len(e) > 1 for e in exp)), any(len(e) > 1 for e in exp) or ties)
    ctx.sample(case)
    # success count inside binomial_score
    if len(set(obs)) >= 2 and theo and tol > 0:
        got = observe(st, pt, 'binomial_score', list(theo), list(obs), tol, ttype)
        ctx.decided()
        k = nm
        n = len(theo)
        rng_ = max(obs) - min(obs)
        tr = (sum(obs) / len(obs)) * tol / 1e6 if ttype == 'ppm' else tol
        try:
            p = len(obs) / (rng_ / tr)
            want = math.comb(n, k) * (p ** k) * ((1 - p) ** (n - k))
            want = ('ok', want)
        except Exception as ex:
            want = ('raise', type(ex).__name__)
        if got is None or got[0] != want[0] or (got[0] == 'ok' and not (
                abs(got[1] - want[1]) <= 1e-9 * max(1e-300, abs(want[1])) or (got[1] != got[1] and want[1] != want[1]))):
            if not (got and got[0] == 'raise' and want[0] == 'raise'):
                ctx.violation('binomial-score-success-count-differs', {'case': case, 'brute_force_successes': k,
                                                                       'expected': want, 'observed': got})


def fragment_level(ctx, st, pt, rng):
    seq = ''.join(rng.choice('ACDEFGHIKLMNPQRSTVWY') for _ in range(rng.randint(2, 9)))
    # the peptide as it is written in a result file: bare, with a charge state, a terminal or a residue modification
    r0 = rng.random()
    seq_text = seq
    if r0 < 0.15:
        seq_text = seq + rng.choice(['/2', '/-3', '/1'])
    elif r0 < 0.25:
        seq_text = '[Acetyl]-' + seq
    elif r0 < 0.35:
        seq_text = seq[:1] + '[+15.995]' + seq[1:] + '/2'
    frags = pt.fragment(seq_text, rng.sample(['b', 'y', 'a', 'c', 'z', 'by', 'i'], rng.randint(1, 3)),
                        rng.sample([1, 2, 3], rng.randint(1, 2)))
    if not frags:
        return
    if rng.random() < 0.4:
        # fragments rebuilt from their dictionary form carry the parent as text instead of an annotation object
        import dataclasses
        frags = [dataclasses.replace(f, parent_sequence=seq_text) for f in frags]
    ttype = fresh_str(rng, rng.choice(['ppm', 'th']))
    tol = rng.choice([0.0, 0.01, 0.5, 2.0]) if ttype == 'th' else rng.choice([0.0, 10.0, 500.0, 5000.0])
    peaks = set()
    for f in rng.sample(frags, min(len(frags), rng.randint(0, 8))):
        peaks.add(round(f.mz + rng.choice([0.0, 0.005, -0.005, 0.3, -0.3, 1.0]), 4))
    for _ in range(rng.randint(0, 6)):
        peaks.add(round(rng.uniform(50, 1200), 4))
    if rng.random() < 0.1:
        peaks = set()
    peaks = list(peaks)
    rng.shuffle(peaks)
    inten = [round(rng.uniform(1, 100), 1) for _ in peaks]
    mode = fresh_str(rng, rng.choice(['all', 'closest', 'largest']))
    shuffled = list(frags)
    rng.shuffle(shuffled)
    one_spectrum(ctx, st, pt, rng, seq, seq_text, frags, shuffled, list(peaks), list(inten), tol, ttype, mode, False)
    if peaks and rng.random() < 0.35:
        # one spectrum held by the caller and edited in place between calls (re-normalised intensities, recalibrated
        # m/z values), and one m/z axis seen again with other intensities: every call answers for the lists as they are
        # at that moment
        P, I = list(peaks), list(inten)
        m2 = rng.choice(['largest', 'largest', mode])
        one_spectrum(ctx, st, pt, rng, seq, seq_text, frags, shuffled, P, I, tol, ttype, m2, True)
        hi = max(I)
        for j in range(len(I)):
            I[j] = round(hi + 1 - I[j], 1)                    # same list object, ranking reversed
        one_spectrum(ctx, st, pt, rng, seq, seq_text, frags, shuffled, P, I, tol, ttype, m2, True)
        one_spectrum(ctx, st, pt, rng, seq, seq_text, frags, shuffled, list(P), [round(rng.uniform(1, 100), 1) for _ in P],
                     tol, ttype, m2, True)                    # equal m/z values, fresh objects, other intensities
        d = rng.choice([0.3, -0.3, 0.005, -0.015, 1.0])
        moved = [round(x + d, 4) for x in P]
        if len(set(moved)) == len(moved):
            for j in range(len(P)):
                P[j] = moved[j]                               # same list object, recalibrated
            one_spectrum(ctx, st, pt, rng, seq, seq_text, frags, shuffled, P, I, tol, ttype, m2, True)


def one_spectrum(ctx, st, pt, rng, seq, seq_text, frags, shuffled, peaks, inten, tol, ttype, mode, held):
    case = {'sequence': seq_text, 'n_fragments': len(frags), 'peaks': list(peaks), 'intensities': list(inten),
            'tolerance': tol, 'type': ttype, 'mode': mode, 'held_lists': held}
    ctx.begin(case)
    if held:
        got = observe(st, pt, 'get_fragment_matches', list(shuffled), peaks, inten, tol, ttype, mode)
    else:
        got = observe(st, pt, 'get_fragment_matches', list(shuffled), list(peaks), list(inten), tol, ttype, mode)
    ctx.decided()
    if got is None or got[0] != 'ok':
        ctx.violation('get_fragment_matches-raises', {'case': case, 'observed': got})
        return
    matches = got[1]
    # expected pairs (fragment, peak) by brute force
    want = set()
    allowed = {}
    for f in frags:
        lo, hi = window(f.mz, tol, ttype)
        inw = [j for j, m in enumerate(peaks) if lo <= m <= hi]
        key = (f.ion_type, f.start, f.end, f.charge, f.isotope, f.loss)
        if not inw:
            continue
        if mode == 'all':
            for j in inw:
                want.add((key, peaks[j]))
        elif mode == 'closest':
            best = min(abs(peaks[j] - f.mz) for j in inw)
            allowed[key] = {peaks[j] for j in inw if abs(peaks[j] - f.mz) <= best}
        else:
            best = max(inten[j] for j in inw)
            allowed[key] = {peaks[j] for j in inw if inten[j] >= best}
    obs_pairs = [((m.fragment.ion_type, m.fragment.start, m.fragment.end, m.fragment.charge, m.fragment.isotope,
                   m.fragment.loss), m.mz) for m in matches]
    bad = None
    if mode == 'all':
        if sorted(obs_pairs, key=repr) != sorted(want, key=repr):
            bad = 'pairs differ from the brute-force pairs'
    else:
        keys = [k for k, _m in obs_pairs]
        if sorted(keys, key=repr) != sorted(allowed, key=repr):
            bad = 'matched fragments differ'
        elif any(m not in allowed[k] for k, m in obs_pairs):
            bad = 'a fragment is paired with a peak that is not the best in its window'
    for m in matches:
        j = peaks.index(m.mz) if m.mz in peaks else None
        if j is None or inten[j] != m.intensity:
            bad = 'a match reports an m/z / intensity pair that is not a peak of the spectrum'
    if bad:
        ctx.violation('fragment-matches-wrong', {'case': case, 'problem': bad, 'observed_pairs': obs_pairs[:10]})
        return
    # matched intensity fraction
    got = observe(st, pt, 'get_matched_intensity_percentage', list(matches), list(inten))
    ctx.decided()
    tot = sum(inten)
    matched_peaks = {m.mz for m in matches}
    want_frac = (sum(i for p, i in zip(peaks, inten) if p in matched_peaks) / tot) if tot else 0
    if got is None or got[0] != 'ok' or abs(got[1] - want_frac) > 1e-12 or not (0 <= got[1] <= 1 + 1e-12):
        ctx.violation('matched-intensity-fraction-wrong', {'case': case, 'expected': want_frac, 'observed': got})
    # coverage counts each match's residues once
    got = observe(st, pt, 'get_match_coverage', list(matches))
    ctx.decided()
    cov = {}
    for m in matches:
        lab = '+' * m.fragment.charge + m.fragment.ion_type
        cov.setdefault(lab, [0] * len(seq))
        for i in range(m.fragment.start, m.fragment.end):
            cov[lab][i] += 1
    if got is None or got[0] != 'ok' or dict(got[1]) != cov:
        ctx.violation('match-coverage-wrong', {'case': case, 'expected': cov, 'observed': got})
    ctx.sig(('fragment-level', mode, ttype, tol == 0, min(len(peaks), 3), min(len(matches), 4), held), len(matches) >= 2)


def run(ctx):
    st = State()
    pt = install(ctx, st)
    ctx.enable_disturb(pt, 0.01)     # other legitimate library calls interleaved between cases (vf.gen.disturb)
    rng = ctx.rng
    for _ in range(ctx.n(250000, 5000000)):
        theo, obs, tol, ttype, grid = gen_lists(rng)
        check_matching(ctx, st, pt, theo, obs, tol, ttype, grid, rng)
    for _ in range(ctx.n(20000, 200000)):
        fragment_level(ctx, st, pt, rng)


def replay(ctx, case):
    import random
    st = State()
    pt = install(ctx, st)
    if 'theoretical' in case:
        check_matching(ctx, st, pt, case['theoretical'], case['observed'], case['tolerance'], case['type'], True,
                       random.Random(0))
    else:
        frags = pt.fragment(case['sequence'], ['b', 'y', 'a', 'c', 'z', 'by', 'i'], [1, 2, 3])
        print(observe(st, pt, 'get_fragment_matches', frags, case['peaks'], case['intensities'], case['tolerance'],
                      case['type'], case['mode']))
