"""Contract installation on the real peptacular functions.

Every monitored function is wrapped twice:

* an icontract layer (``snapshot`` + ``ensure`` with a generic
  ``_ARGS/_KWARGS/result/OLD`` signature) that evaluates the oracle registered
  for the function; conditions *record and return True* - they never abort the
  execution they observe;
* an outer recorder that keeps depth, counts events and observes exceptions
  (icontract post-conditions do not run when the function raises).

After wrapping, every loaded ``peptacular.*`` module namespace that holds the
original object (``from m import f``) is rebound to the wrapper, so the calls
the library makes to itself are monitored too.
"""
import functools
import importlib
import sys
import types
from collections import Counter
from contextlib import contextmanager
from typing import Any, Callable, Dict, List, Optional

import icontract


class ContractRecorded(Exception):
    """error= class of every installed contract (never raised: conditions return True)."""


class Call:
    """What a monitor sees of one call."""
    __slots__ = ('name', 'args', 'kwargs', 'result', 'exc', 'pre', 'depth', 'n')

    def __init__(self, name, args, kwargs, result, exc, pre, depth, n):
        self.name = name
        self.args = args
        self.kwargs = kwargs
        self.result = result
        self.exc = exc
        self.pre = pre
        self.depth = depth
        self.n = n

    def arg(self, index: int, key: str, default: Any = None) -> Any:
        if key in self.kwargs:
            return self.kwargs[key]
        if index < len(self.args):
            return self.args[index]
        return default


class Engine:
    def __init__(self) -> None:
        self.depth = 0
        self.suspended = 0
        self.seq = 0
        self.events: Counter = Counter()
        self.nested_events = 0
        self.max_depth = 0
        self.contract_evals: Counter = Counter()
        self.exceptions: Counter = Counter()
        self.rebound: Counter = Counter()
        self._installed: List[tuple] = []
        self._wrapped: Dict[str, Callable] = {}
        self.trace: Optional[List[dict]] = None  # set to a list to record an event trace

    # -- suspension: oracle-made library calls create no events -------------
    @contextmanager
    def suspend(self):
        self.suspended += 1
        try:
            yield
        finally:
            self.suspended -= 1

    # -- resolution ----------------------------------------------------------
    @staticmethod
    def _resolve(dotted: str):
        """'peptacular.mass' -> (module, 'mass', func, False)
        'peptacular.ProFormaAnnotation.slice' -> (class, 'slice', func, True)"""
        parts = dotted.split('.')
        # longest importable module prefix
        for cut in range(len(parts) - 1, 0, -1):
            modname = '.'.join(parts[:cut])
            try:
                mod = importlib.import_module(modname)
            except ImportError:
                continue
            obj = mod
            owner = None
            ok = True
            for p in parts[cut:]:
                owner = obj
                if not hasattr(obj, p):
                    ok = False
                    break
                obj = getattr(obj, p)
            if ok:
                is_method = isinstance(owner, type)
                return owner, parts[-1], obj, is_method
        raise AttributeError(dotted)

    def attach(self, dotted: str, post: Optional[Callable[[Call], None]] = None,
               pre: Optional[Callable[[tuple, dict], Any]] = None,
               on_raise: Optional[Callable[[Call], None]] = None,
               materialize: bool = False) -> bool:
        """Install a monitor. Returns False (and installs nothing) when the name does not exist."""
        try:
            owner, attr, orig, is_method = self._resolve(dotted)
        except AttributeError:
            return False
        if getattr(orig, '__vf_wrapped__', False):
            # stack a second monitor on an already wrapped function
            orig.__vf_specs__.append((post, pre, on_raise))
            return True
        eng = self
        name = dotted
        specs = [(post, pre, on_raise)]

        if materialize:
            @functools.wraps(orig)
            def base(*a, **k):
                return list(orig(*a, **k))
        else:
            base = orig

        def capture(_ARGS, _KWARGS):
            if eng.suspended:
                return None
            out = []
            with eng.suspend():
                for _post, _pre, _ in specs:
                    out.append(_pre(_ARGS, _KWARGS) if _pre is not None else None)
            return out

        def cond(_ARGS, _KWARGS, result, OLD):
            if eng.suspended:
                return True
            eng.contract_evals[name] += 1
            with eng.suspend():
                for i, (_post, _pre, _) in enumerate(specs):
                    if _post is not None:
                        _post(Call(name, _ARGS, _KWARGS, result, None,
                                   OLD.pre[i] if OLD.pre is not None else None, eng.depth - 1, eng.seq))
            return True

        contracted = icontract.snapshot(capture, name='pre')(
            icontract.ensure(cond, error=ContractRecorded)(base))

        @functools.wraps(orig)
        def wrapper(*a, **k):
            if eng.suspended:
                return orig(*a, **k)
            eng.seq += 1
            eng.events[name] += 1
            if eng.depth > 0:
                eng.nested_events += 1
            eng.depth += 1
            if eng.depth > eng.max_depth:
                eng.max_depth = eng.depth
            try:
                r = contracted(*a, **k)
            except BaseException as e:  # observed, then re-raised unchanged
                eng.exceptions[(name, type(e).__name__)] += 1
                if not eng.suspended:
                    with eng.suspend():
                        for _post, _pre, _on_raise in specs:
                            if _on_raise is not None:
                                _on_raise(Call(name, a, k, None, e, None, eng.depth - 1, eng.seq))
                raise
            finally:
                eng.depth -= 1
            if eng.trace is not None and len(eng.trace) < 100000:
                eng.trace.append({'n': eng.seq, 'depth': eng.depth, 'func': name})
            if materialize:
                return iter(r)
            return r

        wrapper.__vf_wrapped__ = True
        wrapper.__vf_specs__ = specs
        wrapper.__vf_orig__ = orig

        if is_method:
            raw = owner.__dict__.get(attr)
            if isinstance(raw, staticmethod):
                setattr(owner, attr, staticmethod(wrapper))
            elif isinstance(raw, classmethod):
                return False
            else:
                setattr(owner, attr, wrapper)
            self._installed.append((owner, attr, raw))
            self.rebound[name] += 1
        else:
            # rebind in every loaded peptacular module that holds the original object
            for modname, mod in list(sys.modules.items()):
                if mod is None or not (modname == 'peptacular' or modname.startswith('peptacular.')):
                    continue
                for key, val in list(vars(mod).items()):
                    if val is orig:
                        setattr(mod, key, wrapper)
                        self._installed.append((mod, key, orig))
                        self.rebound[name] += 1
        self._wrapped[name] = wrapper
        return True

    def detach_all(self) -> None:
        for owner, attr, orig in reversed(self._installed):
            setattr(owner, attr, orig)
        self._installed.clear()
        self._wrapped.clear()

    def summary(self) -> dict:
        return {
            'events_by_function': dict(self.events),
            'nested_events': self.nested_events,
            'max_depth': self.max_depth,
            'contract_evaluations': dict(self.contract_evals),
            'exceptions_observed': {f'{k[0]}:{k[1]}': v for k, v in self.exceptions.items()},
            'rebound_namespaces': dict(self.rebound),
        }
