"""Other legitimate uses of the library, made between the cases of a workload.

Every property is stated for a call, not for "the first call in a fresh process": a program that reads a FASTA file,
validates user input (some of it malformed), asks for a mass that cannot be computed, converts a few foreign
notations, digests or fragments something else, and only then makes the call under observation, is ordinary use.
The oracles of the checks never consult library state, so on a library without hidden process state these calls can
only change what the monitors observe if the library lets one call leak into another (a dirty reused parser, a constants
table edited in place, a memo keyed too coarsely) - which is exactly what the properties exclude.

The calls are made under Engine.suspend(): they create no monitor events of their own and cannot disturb a case's
per-call bookkeeping.  Exceptions they raise are expected (that is the point of several of them) and swallowed.
"""
import io

BAD_TEXTS = [
    'PEPTIDE[Phospho]]', '{Glycan:Hex}[Acetyl]-PEPT[Oxidation', '<13C>PEP[', 'PEP(TI', '[Acetyl]-PEP[+1.5', 'PEPTIDE/2[+Na+',
    'PEP//TI[DE', '<[Carbamidomethyl]@C>PEC[', '[Acetyl]?PEPT(ID)E)', 'PEM[Oxidation]S[Phospho]^', 'PEPTIDE-[Amide]-',
    'AC[+57.021]DK/2[+2Na+,', '(?PE)PT[1.5', '[Acetyl]-[Methyl', 'PEPTIDE+AK[', '{Glycan:Hex}{', 'PEP[Formula:[13C2]', 'K[+1][',
]
UNRESOLVABLE = ['PEP[INVALID]TIDE', '[U:nope]-PEPTIDE', 'PEPTIDE-[UNIMOD:999999]', '<[M:nope]@P>PEPTIDE', 'PEP[Glycan:Foo]TIDE',
                '{Obs:abc}PEPTIDE', 'PEPTIDE[phospho]', 'PEPT[u:oxidation]IDE', 'PEPT[formula:cs2]IDE']
FASTA = '>sp|P1|ONE first protein\nMKPEPTIDEK*\nAC-DEFGHIK\n>sp|P2|TWO\nPEPTIDERPEPTIDEK\n\n>three\nacdefghik\n'
FOREIGN = [('convert_ip2_sequence', 'K.PEP(15.99)TIDE.R'), ('convert_diann_sequence', '_[Acetyl]PEPC[Carbamidomethyl]TIDE_'),
           ('convert_casanovo_sequence', '+43.006PEP+15.995TIDE')]
VALID = [
    lambda pt: pt.mass('<13C>[Acetyl]-PEM[Oxidation]K-[Amidated]/2'),
    lambda pt: pt.mass('{Glycan:Hex}[Acetyl]-PEPS[Phospho]^2K/2[+2Na+]', monoisotopic=False),
    lambda pt: pt.comp('<[Carbamidomethyl]@C>PEC[Formula:C2H3]K(AK)[Methyl]'),
    lambda pt: pt.fragment('[Acetyl]-PEM[Oxidation]STK', ['b', 'y'], [1, 2], water_loss=True),
    lambda pt: list(pt.digest('AKADARPEKDE', ['lys-c', 'asp-n'], 1, return_type='span')),
    lambda pt: pt.parse('[Acetyl]-PEP[Phospho]^2TIDE(AK)[Methyl]-[Amide]/2').serialize(),
    lambda pt: pt.parse('PEPC[16]K//AC[16.0]K').serialize(),
    lambda pt: pt.mod_mass('Formula:CS2') + pt.mod_mass('U:Oxidation') + pt.mod_mass('Glycan:HexNAc2Hex3'),
    lambda pt: pt.mod_comp('Formula:[13C2]H4Cs1'),
    lambda pt: pt.chem_mass('C6H12O6e-1'),
    lambda pt: pt.write_chem_formula({'C': 6, 'H': 12, 'O': 6, 'e': -1}),
    lambda pt: pt.condense_to_mass_mods('<15N>[Acetyl]-PEM[Oxidation]K'),
    lambda pt: pt.apply_static_mods('PECK', {'C': [57.021]}),
    lambda pt: pt.permutations('PE[16]K', 2),
    lambda pt: pt.find_subsequence_indices('PEPTIDEPEP', 'PEP'),
    lambda pt: pt.isotopic_distribution({'C': 4, 'H': 9, 'N': 1, 'O': 2}),
    lambda pt: pt.reverse('[Acetyl]-PEP[Phospho]TIDE'),
]
KINDS = ['failed-parse', 'is-valid', 'fasta', 'failed-mass', 'foreign', 'valid', 'valid', 'abandoned-generator']


def disturb(rng, pt, eng) -> str:
    """one disturbance; returns its kind (for evidence counters)"""
    kind = rng.choice(KINDS)
    with eng.suspend():
        try:
            if kind == 'failed-parse':
                pt.parse(rng.choice(BAD_TEXTS))
            elif kind == 'is-valid':
                pt.is_sequence_valid(rng.choice(BAD_TEXTS))
            elif kind == 'fasta':
                pt.parse_fasta(FASTA if rng.random() < 0.5 else io.StringIO(FASTA))
            elif kind == 'failed-mass':
                t = rng.choice(UNRESOLVABLE)
                (pt.mass if rng.random() < 0.5 else pt.comp)(t)
            elif kind == 'foreign':
                fn, arg = rng.choice(FOREIGN)
                getattr(pt, fn)(arg)
            elif kind == 'abandoned-generator':
                g = pt.digest('AKADARPEKDEK', 'trypsin', 1, return_type='annotation')
                if hasattr(g, '__next__'):
                    next(g, None)
                    next(g, None)
                it = iter(pt.parse('{Glycan:Hex}PEPTIDE').split())
                next(it, None)
                next(it, None)
            else:
                rng.choice(VALID)(pt)
        except Exception:
            pass
    return kind
