"""Re-runs every seeded change against the checks its meta.json lists (scratch worktree, never /repo) and rewrites
`caught_by` with what actually reported a violation.  python -m vf.seedverify [seed ...]"""
import glob
import json
import os
import subprocess
import sys

import vf

PY = '/venv/bin/python'


def main(argv):
    seeds = [a for a in argv if a != '--resume'] or [os.path.basename(d) for d in sorted(glob.glob(os.path.join(vf.ROOT, 'seeded', '*')))
                     if os.path.isdir(d)]
    bad = 0
    skip_done = '--resume' in argv
    head = subprocess.check_output(['git', '-C', '/repo', 'rev-parse', '--short', 'HEAD']).decode().strip()
    for s in seeds:
        mp = os.path.join(vf.ROOT, 'seeded', s, 'meta.json')
        meta = json.load(open(mp))
        if skip_done and (meta.get('last_verified') or {}).get('repo_head') == head:
            continue
        checks = list(dict.fromkeys((meta.get('expected_checks') or []) + (meta.get('caught_by') or [])))
        out = subprocess.run([PY, '-m', 'vf.seedtest', os.path.join('seeded', s), '--checks'] + checks + ['--confirm'],
                             cwd=vf.ROOT, capture_output=True, text=True).stdout
        caught = []
        for line in out.split('\n'):
            if line.startswith('CAUGHT BY:'):
                caught = [c for c in line[len('CAUGHT BY:'):].split() if c != 'nothing']
        ok_tests = '"tests_exit": 0' in out
        ok_demo = '"demo_with_patch_exit": 1' in out and '"demo_without_patch_exit": 0' in out
        meta['caught_by'] = caught
        meta['expected_checks'] = caught or checks
        meta['last_verified'] = {'repo_head': head, 'tests_pass_with_patch': ok_tests, 'demo_discriminates': ok_demo, 'checks_run': checks}
        json.dump(meta, open(mp, 'w'), indent=1)
        flag = '' if (caught and ok_tests and ok_demo) else '   <-- ATTENTION'
        if flag:
            bad += 1
        print(f'{s}: caught by {caught or "nothing"} (ran {checks}) tests={ok_tests} demo={ok_demo}{flag}', flush=True)
    print('seeds needing attention:', bad)
    return 0


if __name__ == '__main__':
    sys.exit(main(sys.argv[1:]))
