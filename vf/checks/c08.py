"""C08 - queries never change their arguments or depend on call history."""
import copy
import itertools
import random as _random

from vf.engine import probes
from vf.ref import pep as rp

DECIDING = ['peptacular.mass_calc.mass', 'peptacular.fragmentation.fragment']
SHARDS = {'quick': 16, 'thorough': 16}
EXHAUSTIVE = {'quick': 'all ordered pairs of catalogue calls on each of 3 annotation shapes (and on the non-annotation '
                       'shared objects)',
              'thorough': 'all ordered pairs of catalogue calls on each of 12 annotation shapes (and on the '
                          'non-annotation shared objects)'}
RULE = ('histories of 1..3 calls drawn from the catalogue of public functions and annotation methods that take an '
        'annotation/dict/list argument, applied to one shared object. Online purity contract on every catalogue function '
        '(any depth): (a) deep structural dump of every argument unchanged unless the call is an explicit in-place '
        'editor, (b) no mutable object reachable from the result is reachable from an argument, (c) random-generator '
        'state and vocabulary fingerprints unchanged; offline history checker: (d) result of call B after call A equals '
        'B on a pristine deep copy, and (e) the workload edits every container it is handed back (adds a key/element, '
        'bumps a count) and requires B on a pristine copy after the history to equal B on a pristine copy before it '
        '(memo tables or module tables leaking into results). signature = (object kind/shape, call A, call B[, call C]); non-trivial = the history '
        'has at least two calls')
ASSUMPTIONS = ['in-place editors are exempt by the statement\'s own rule: inplace=True, add_*/pop_*/setters, '
               'clear_empty_mods, strip(inplace=True), module-level add_mods/pop_mods',
               'Fragment.parent_sequence (documented back-reference) is exempt from the aliasing clause; plain field '
               'accessors (properties, get_internal_mods_by_index) are attribute reads, not catalogue calls',
               'shuffle(seed=None) is specified to draw from the process generator and is exempt from the RNG clause']
LEVEL_TEXT = ('A purity contract runs on every catalogue function at every depth and an offline checker compares '
              'call results after histories with results on pristine copies; all ordered pairs are enumerated; held on '
              'the executions observed.')
TECHNIQUE = 'runtime monitoring: generic purity contract (snapshot+ensure) on ~90 functions, offline history checker'

SHAPES = [
    '{Glycan:Hex}<[Carbamidomethyl]@C><13C>[Oxidation]?[Acetyl]-PEC[Phospho]T(ID)[+15.995]EK-[Amidated]/2[+2Na+]',
    '{+100.5}[Acetyl]-PEPTIDEK/2',
    '<[10]@N-Term>[3.5]^2?M[Oxidation][+1]KPEP(?TI)DE-[Methyl]',
    'PEPTIDE',
    '{Phospho}^2<15N><[Formula:C2H3NO]@K,C-Term>KAC[Formula:[13C2]H4]K[#g1]S[Phospho#g1(0.9)]R/3',
    '[Formula:C2H2O]-AAKAA[+42.010565|INFO:x]AKAA-[-17.0265]/-2',
    '<[Oxidation]@M><[+57.021464]@C>MCMCK[Glycan:HexNAc2Hex3]R',
    '{1.5}[1]?[2]-A[3](CD)[4]E-[5]/1[+H+]',
    '<D>GG[Obs:+12.5]GR',
    'K[Biotin]^2(?LM)[Dioxidation]NOP-[Amidated]',
    '[+10]-W',
    '<13C><15N>{Glycan:Fuc}[Formula:H2O]?SAMPLER/4[+Na+,+3H+]',
]
# the same kind of object, but NOT freshly parsed: residue-modification dictionary and interval list in reverse
# positional order (what reverse()/shuffle()/programmatic add_* leave behind). Shape index 2 in the quick tier.
SCRAMBLED = 'SCRAMBLED:{+100.5}[Acetyl]-PE(PT)[1.5]K[Phospho](ID)[Oxidation]E[2]K-[Amidated]/2'
SHAPES.insert(2, SCRAMBLED)


def make_shape(pt, text):
    if not text.startswith('SCRAMBLED:'):
        return pt.parse(text)
    d = pt.parse(text[len('SCRAMBLED:'):]).dict()
    d['internal_mods'] = dict(reversed(list(d['internal_mods'].items())))
    d['intervals'] = list(reversed(d['intervals']))
    return pt.create_annotation(**d)


def kind_of(x):
    return type(x).__name__


def deep(x, _depth=0):
    """Type-tagged structural dump (order-preserving)."""
    t = type(x).__name__
    if x is None or isinstance(x, (bool, int, float, str)):
        return (t, repr(x))
    if _depth > 8:
        return (t, 'deep')
    if t == 'ProFormaAnnotation':
        return ('PFA', tuple((f, deep(getattr(x, f), _depth + 1)) for f in
                             ('sequence', 'isotope_mods', 'static_mods', 'labile_mods', 'unknown_mods', 'nterm_mods',
                              'cterm_mods', 'internal_mods', 'intervals', 'charge', 'charge_adducts')))
    if t == 'MultiProFormaAnnotation':
        return ('MPFA', deep(x.annotations, _depth + 1), deep(x.connections, _depth + 1))
    if t == 'Mod':
        return ('Mod', type(x.val).__name__, repr(x.val), x.mult)
    if t == 'Interval':
        return ('Iv', x.start, x.end, x.ambiguous, deep(x.mods, _depth + 1))
    if t == 'Fragment':
        return ('Fragment', x.charge, x.ion_type, x.start, x.end, x.monoisotopic, x.isotope, repr(x.loss),
                repr(x.mass), repr(x.neutral_mass), repr(x.mz), x.sequence, x.unmod_sequence, x.internal)
    if t == 'FragmentMatch':
        return ('FragmentMatch', deep(x.fragment, _depth + 1), repr(x.mz), repr(x.intensity))
    if t == 'EnzymeConfig':
        return ('EnzymeConfig', deep(x.regex, _depth + 1), x.missed_cleavages, x.semi_enzymatic, x.complete_digestion)
    if isinstance(x, dict):
        return (t, tuple((repr(k), deep(v, _depth + 1)) for k, v in x.items()))
    if isinstance(x, (list, tuple)):
        return (t, tuple(deep(i, _depth + 1) for i in x))
    if isinstance(x, (set, frozenset)):
        return (t, tuple(sorted(repr(deep(i, _depth + 1)) for i in x)))
    return (t, repr(x))


def mutable_ids(x, acc=None, _depth=0, skip_parent=True):
    """ids of every mutable object reachable from x."""
    if acc is None:
        acc = {}
    if x is None or isinstance(x, (bool, int, float, str, bytes)) or _depth > 8:
        return acc
    t = type(x).__name__
    if id(x) in acc:
        return acc
    if t == 'ProFormaAnnotation':
        acc[id(x)] = t
        for f in ('isotope_mods', 'static_mods', 'labile_mods', 'unknown_mods', 'nterm_mods', 'cterm_mods',
                  'internal_mods', 'intervals', 'charge_adducts'):
            mutable_ids(getattr(x, f), acc, _depth + 1)
    elif t == 'MultiProFormaAnnotation':
        acc[id(x)] = t
        mutable_ids(x.annotations, acc, _depth + 1)
        mutable_ids(x.connections, acc, _depth + 1)
    elif t == 'Mod':
        acc[id(x)] = t
    elif t == 'Interval':
        acc[id(x)] = t
        mutable_ids(x.mods, acc, _depth + 1)
    elif t == 'Fragment':
        pass  # frozen; parent_sequence is a documented back-reference
    elif t == 'FragmentMatch':
        pass
    elif isinstance(x, dict):
        acc[id(x)] = t
        for v in x.values():
            mutable_ids(v, acc, _depth + 1)
    elif isinstance(x, (list, set)):
        acc[id(x)] = t
        for v in x:
            mutable_ids(v, acc, _depth + 1)
    elif isinstance(x, tuple):
        for v in x:
            mutable_ids(v, acc, _depth + 1)
    return acc


def scribble(x, _depth=0, _seen=None):
    """The caller edits what it was handed back: every mutable container reachable from a result is changed in
    place (a key/element added, a count bumped). A later call must not see any of it."""
    if _seen is None:
        _seen = set()
    if x is None or isinstance(x, (bool, int, float, str, bytes)) or _depth > 6 or id(x) in _seen:
        return
    _seen.add(id(x))
    t = type(x).__name__
    if t == 'ProFormaAnnotation':
        for f in ('isotope_mods', 'static_mods', 'labile_mods', 'unknown_mods', 'nterm_mods', 'cterm_mods',
                  'internal_mods', 'intervals', 'charge_adducts'):
            scribble(getattr(x, f), _depth + 1, _seen)
    elif t == 'MultiProFormaAnnotation':
        scribble(x.annotations, _depth + 1, _seen)
        scribble(x.connections, _depth + 1, _seen)
    elif t == 'Mod':
        try:
            x.mult = x.mult + 1
        except Exception:
            pass
    elif t == 'Interval':
        scribble(x.mods, _depth + 1, _seen)
    elif isinstance(x, dict):
        for v in list(x.values()):
            scribble(v, _depth + 1, _seen)
        for k, v in list(x.items()):
            if isinstance(v, (int, float)) and not isinstance(v, bool):
                x[k] = v + 1
                break
        try:
            x['Zz'] = 7
        except Exception:
            pass
    elif isinstance(x, list):
        for v in list(x):
            scribble(v, _depth + 1, _seen)
        x.append(x[0] if x else 0)
    elif isinstance(x, set):
        x.add('Zz')
    elif isinstance(x, tuple):
        for v in x:
            scribble(v, _depth + 1, _seen)


EDITOR_PREFIXES = ('add_', 'pop_', 'set_', 'clear_empty_mods')
EDITOR_FUNCTIONS = {'add_mods', 'pop_mods'}


def is_editor(name: str, kwargs: dict, args: tuple) -> bool:
    short = name.rsplit('.', 1)[1]
    if kwargs.get('inplace') is True:
        return True
    if short.startswith(EDITOR_PREFIXES) or short in EDITOR_FUNCTIONS:
        return True
    return False


# functions put under the generic purity contract (module path, materialize generator results?)
CONTRACTED = [
    ('peptacular.mass_calc.mass', False), ('peptacular.mass_calc.mz', False), ('peptacular.mass_calc.comp', False),
    ('peptacular.mass_calc.comp_mass', False), ('peptacular.mass_calc.condense_to_mass_mods', False),
    ('peptacular.mass_calc.mod_mass', False), ('peptacular.chem.chem_calc.mod_comp', False),
    ('peptacular.chem.chem_util.chem_mass', False), ('peptacular.chem.chem_util.write_chem_formula', False),
    ('peptacular.chem.chem_calc.apply_isotope_mods_to_composition', False),
    ('peptacular.mass_calc.glycan_mass', False), ('peptacular.glycan.glycan_comp', False),
    ('peptacular.glycan.write_glycan_formula', False),
    ('peptacular.fragmentation.fragment', False), ('peptacular.fragmentation.Fragmenter.fragment', False),
    ('peptacular.digestion.digest', True), ('peptacular.digestion.digest_from_config', True),
    ('peptacular.digestion.sequential_digest', True), ('peptacular.digestion.get_cleavage_sites', True),
    ('peptacular.digestion.get_left_semi_enzymatic_sequences', True),
    ('peptacular.digestion.get_right_semi_enzymatic_sequences', True),
    ('peptacular.digestion.get_semi_enzymatic_sequences', True),
    ('peptacular.digestion.get_non_enzymatic_sequences', True),
    ('peptacular.isotope.isotopic_distribution', False), ('peptacular.isotope.merge_isotopic_distributions', False),
    ('peptacular.score.get_fragment_matches', False), ('peptacular.score.get_match_coverage', False),
    ('peptacular.score.match_spectra', False), ('peptacular.score.get_matched_indices', False),
    ('peptacular.score.binomial_score', False), ('peptacular.score.get_matched_intensity_percentage', False),
    ('peptacular.score.filter_missing_mono_isotope', False), ('peptacular.score.filter_skipped_isotopes', False),
    ('peptacular.proforma.proforma_parser.serialize', False),
    ('peptacular.proforma.proforma_parser.create_annotation', False),
    ('peptacular.proforma.proforma_parser.create_multi_annotation', False),
    ('peptacular.proforma.proforma_parser.parse_static_mods', False),
    ('peptacular.proforma.proforma_parser.parse_isotope_mods', False),
    ('peptacular.proforma.proforma_parser.parse_charge_adducts', False),
    ('peptacular.proforma.proforma_parser.write_static_mods', False),
    ('peptacular.proforma.proforma_parser.write_isotope_mods', False),
    ('peptacular.proforma.proforma_parser.write_charge_adducts', False),
    ('peptacular.proforma.input_convert.fix_list_of_mods', False),
    ('peptacular.proforma.input_convert.fix_dict_of_mods', False),
    ('peptacular.proforma.input_convert.fix_intervals_input', False),
    ('peptacular.proforma.input_convert.fix_list_of_list_of_mods', False),
    ('peptacular.sequence.sequence_funcs.sequence_length', False),
    ('peptacular.sequence.sequence_funcs.is_ambiguous', False), ('peptacular.sequence.sequence_funcs.is_modified', False),
    ('peptacular.sequence.sequence_funcs.get_mods', False), ('peptacular.sequence.sequence_funcs.add_mods', False),
    ('peptacular.sequence.sequence_funcs.condense_static_mods', False),
    ('peptacular.sequence.sequence_funcs.pop_mods', False), ('peptacular.sequence.sequence_funcs.strip_mods', False),
    ('peptacular.sequence.sequence_funcs.reverse', False), ('peptacular.sequence.sequence_funcs.shuffle', False),
    ('peptacular.sequence.sequence_funcs.shift', False), ('peptacular.sequence.sequence_funcs.span_to_sequence', False),
    ('peptacular.sequence.sequence_funcs.split', False), ('peptacular.sequence.sequence_funcs.count_residues', False),
    ('peptacular.sequence.sequence_funcs.is_subsequence', False), ('peptacular.sequence.sequence_funcs.sort', False),
    ('peptacular.sequence.sequence_funcs.find_subsequence_indices', False),
    ('peptacular.sequence.sequence_funcs.coverage', False), ('peptacular.sequence.sequence_funcs.percent_coverage', False),
    ('peptacular.sequence.sequence_funcs.is_sequence_valid', False), ('peptacular.sequence.sequence_funcs.count_aa', False),
    ('peptacular.sequence.combinatoric.permutations', False), ('peptacular.sequence.combinatoric.combinations', False),
    ('peptacular.sequence.combinatoric.combinations_with_replacement', False),
    ('peptacular.sequence.combinatoric.product', False),
    ('peptacular.sequence.mod_builder.apply_static_mods', False),
    ('peptacular.sequence.mod_builder.apply_variable_mods', False),
]
METHODS = ['serialize', 'serialize_start', 'serialize_middle', 'serialize_end', 'dict', 'mod_dict', 'copy', 'strip',
           'slice', 'shift', 'shuffle', 'reverse', 'split', 'count_residues', 'sort_residues', 'is_subsequence',
           'find_indices', 'permutations', 'product', 'combinations', 'combinations_with_replacement',
           'condense_static_mods', 'contains_sequence_ambiguity', 'contains_residue_ambiguity',
           'contains_mass_ambiguity', 'has_mods', 'count_internal_mods', 'count_modified_residues', '__eq__',
           '__len__', '__repr__', 'add_mod_dict', 'add_internal_mod', 'pop_labile_mods', 'pop_mods']
for _m in METHODS:
    CONTRACTED.append(('peptacular.proforma.proforma_parser.ProFormaAnnotation.' + _m, _m == 'split'))


class State:
    def __init__(self):
        self.purity_evals = 0
        self.reported = set()
        self.history = None


def install(ctx, st: State):
    global ENG
    ENG = ctx.eng
    import peptacular as pt

    def pre(args, kwargs):
        vals = list(args) + list(kwargs.values())
        ids = {}
        for v in vals:
            mutable_ids(v, ids)
        return ([deep(v) for v in vals], ids, probes.cheap_fp())

    def make_post(name):
        def post(call):
            st.purity_evals += 1
            ctx.decided()
            before, arg_ids, fp = call.pre
            vals = list(call.args) + list(call.kwargs.values())
            hist = st.history
            if not is_editor(name, call.kwargs, call.args):
                after = [deep(v) for v in vals]
                if after != before:
                    idx = next(i for i, (a, b) in enumerate(zip(before, after)) if a != b)
                    key = ('arg', name, idx)
                    if key not in st.reported:
                        st.reported.add(key)
                        ctx.violation('argument-changed', {'function': name, 'argument_index': idx,
                                                           'before': repr(before[idx])[:400],
                                                           'after': repr(after[idx])[:400], 'depth': call.depth,
                                                           'history': hist})
                    else:
                        ctx.viol_counts['argument-changed|'] += 1
                res_ids = mutable_ids(call.result)
                shared = [t for i, t in res_ids.items() if i in arg_ids]
                if shared:
                    key = ('alias', name)
                    if key not in st.reported:
                        st.reported.add(key)
                        ctx.violation('result-shares-mutable-state-with-argument',
                                      {'function': name, 'shared_object_types': sorted(set(shared)),
                                       'depth': call.depth, 'history': hist})
                    else:
                        ctx.viol_counts['result-shares-mutable-state-with-argument|'] += 1
            fp2 = probes.cheap_fp()
            if fp2 != fp:
                exempt = name.endswith('.shuffle') and call.kwargs.get('seed', call.args[1] if len(call.args) > 1
                                                                       else None) is None
                if not exempt:
                    what = 'random-generator-state' if fp2[:2] != fp[:2] else 'vocabulary'
                    key = ('state', name, what)
                    if key not in st.reported:
                        st.reported.add(key)
                        ctx.violation('process-state-changed', {'function': name, 'what': what, 'depth': call.depth,
                                                                'history': hist})
                    else:
                        ctx.viol_counts['process-state-changed|'] += 1
        return post

    installed = 0
    for name, mat in CONTRACTED:
        if ctx.eng.attach(name, post=make_post(name), pre=pre, materialize=mat):
            installed += 1
        else:
            ctx.note('catalogue_name_missing:' + name)
    ctx.extra['contracted_functions'] = installed
    return pt


# ---------------------------------------------------------------------------------------------------------
# catalogue of histories' calls on a shared annotation
# ---------------------------------------------------------------------------------------------------------

KEPT = []      # partially consumed iterators the "caller" still holds (closing one would run its clean-up code)


ENG = None     # the engine of the running shard (set by install)


def take2(make_it):
    """the caller takes two items from a lazily produced result and keeps the iterator (zip with a shorter list, an early
    break, a paging loop): the argument must answer other queries as before while the iterator is still open.
    The producing call is made with the monitors suspended - the recording layer materialises generator results, which
    would hide exactly the laziness this entry is about; the verdict comes from the history clauses, not from that
    call's own contract."""
    with ENG.suspend():
        it = iter(make_it())
        out = [next(it, None), next(it, None)]
    KEPT.append(it)
    if len(KEPT) > 6:
        KEPT.pop(0)
    return out


def ann_calls(pt):
    P = pt
    sub = lambda a: a.slice(0, min(2, len(a)))    # noqa: E731
    C = [
        ('mass', lambda a: P.mass(a)), ('mass-avg-b2', lambda a: P.mass(a, ion_type='b', charge=2, monoisotopic=False)),
        ('mz', lambda a: P.mz(a, charge=2)), ('comp', lambda a: P.comp(a, estimate_delta=True)),
        ('comp_mass', lambda a: P.comp_mass(a, ion_type='y', charge=1)),
        ('condense_to_mass_mods', lambda a: P.condense_to_mass_mods(a)),
        ('fragment', lambda a: P.fragment(a, ['b', 'y'], [1, 2], water_loss=True)),
        ('fragment-labels', lambda a: P.fragment(a, 'by', 1, return_type='mz-label', precision=3)),
        ('Fragmenter', lambda a: P.Fragmenter(a).fragment(['a', 'x'], 1, losses=[('P', -10.0)])),
        ('digest', lambda a: list(P.digest(a, 'trypsin/P', 1, return_type='annotation-span'))),
        ('digest-semi-str', lambda a: list(P.digest(a, ['([KR])', 'asp-n'], 0, True))),
        ('digest_from_config', lambda a: list(P.digest_from_config(a, P.EnzymeConfig('lys-c', 1)))),
        ('sequential_digest', lambda a: list(P.sequential_digest(a, [P.EnzymeConfig('lys-c'), P.EnzymeConfig('glu-c')]))),
        ('get_cleavage_sites', lambda a: list(P.get_cleavage_sites(a, 'trypsin'))),
        ('left_semi', lambda a: list(P.get_left_semi_enzymatic_sequences(a))),
        ('non_enzymatic', lambda a: list(P.get_non_enzymatic_sequences(a, max_len=3, return_type='annotation'))),
        ('sequence_length', lambda a: P.sequence_length(a)), ('is_ambiguous', lambda a: P.is_ambiguous(a)),
        ('is_modified', lambda a: P.is_modified(a)), ('get_mods', lambda a: P.get_mods(a)),
        ('condense_static_mods', lambda a: P.condense_static_mods(a)), ('strip_mods', lambda a: P.strip_mods(a)),
        ('pop_mods-fn', lambda a: P.pop_mods(a)),
        ('reverse', lambda a: P.reverse(a, swap_terms=True)), ('shuffle-seeded', lambda a: P.shuffle(a, seed=7)),
        ('shift', lambda a: P.shift(a, 2)), ('span_to_sequence', lambda a: P.span_to_sequence(a, (0, min(3, len(a)), 0))),
        ('split', lambda a: P.split(a)), ('count_residues', lambda a: P.count_residues(a)),
        ('is_subsequence', lambda a: P.is_subsequence(sub(a), a)),
        ('is_subsequence-unordered', lambda a: P.is_subsequence(sub(a), a, order=False)),
        ('sort', lambda a: P.sort(a)), ('find_subsequence_indices', lambda a: P.find_subsequence_indices(a, sub(a))),
        ('coverage', lambda a: P.coverage(a, [sub(a)], accumulate=True)),
        ('percent_coverage', lambda a: P.percent_coverage(a, [sub(a)], ignore_mods=True)),
        ('is_sequence_valid', lambda a: P.is_sequence_valid(a)), ('count_aa', lambda a: P.count_aa(a)),
        ('permutations', lambda a: P.permutations(a, 2)), ('combinations', lambda a: P.combinations(a, 2)),
        ('combinations_with_replacement', lambda a: P.combinations_with_replacement(a, 2)),
        ('product', lambda a: P.product(a, 2)),
        ('apply_static_mods', lambda a: P.apply_static_mods(a, {'P': ['Phospho'], 'K': [1.5]}, nterm_mods='Acetyl',
                                                            mode='append')),
        ('apply_variable_mods', lambda a: P.apply_variable_mods(a, {'P': [['Phospho']], 'E': 2.0}, 1,
                                                                nterm_mods={'': 'Acetyl'})),
        ('apply_variable_mods-0-annotation', lambda a: P.apply_variable_mods(a, {'P': 'Phospho'}, 0,
                                                                             return_type='annotation')),
        ('serialize', lambda a: P.serialize(a, True)),
        # methods
        ('m.serialize', lambda a: a.serialize()), ('m.dict', lambda a: a.dict()), ('m.mod_dict', lambda a: a.mod_dict()),
        ('m.copy', lambda a: a.copy()), ('m.strip', lambda a: a.strip()), ('m.slice', lambda a: a.slice(1, None)),
        ('m.shift', lambda a: a.shift(1)), ('m.shuffle-seeded', lambda a: a.shuffle(seed=3)),
        ('m.reverse', lambda a: a.reverse()), ('m.split', lambda a: list(a.split())),
        ('m.count_residues', lambda a: a.count_residues()), ('m.sort_residues', lambda a: a.sort_residues()),
        ('m.is_subsequence', lambda a: sub(a).is_subsequence(a)), ('m.find_indices', lambda a: sub(a).find_indices(a)),
        ('m.permutations', lambda a: a.permutations(2)), ('m.product', lambda a: a.product(1)),
        ('m.combinations', lambda a: a.combinations(2)),
        ('m.combinations_with_replacement', lambda a: a.combinations_with_replacement(1)),
        ('m.condense_static_mods', lambda a: a.condense_static_mods()),
        ('m.contains_sequence_ambiguity', lambda a: a.contains_sequence_ambiguity()),
        ('m.has_mods', lambda a: a.has_mods()), ('m.count_internal_mods', lambda a: a.count_internal_mods()),
        ('m.eq', lambda a: a == a.copy()), ('m.repr', lambda a: repr(a)),
        # lazily produced results, two items taken, iterator still open
        ('m.split-two-taken', lambda a: take2(lambda: a.split())), ('split-two-taken', lambda a: take2(lambda: P.split(a))),
        ('digest-two-taken', lambda a: take2(lambda: P.digest(a, 'trypsin/P', 1, return_type='annotation'))),
        ('non_enzymatic-two-taken', lambda a: take2(lambda: P.get_non_enzymatic_sequences(a, max_len=3,
                                                                                          return_type='annotation'))),
    ]
    return C


def other_objects(pt):
    """(kind, factory, calls) for shared dict / list objects."""
    P = pt
    frags = lambda: P.fragment('PEPTIDEK', ['y', 'b'], [1, 2])   # noqa: E731
    return [
        ('composition-dict', lambda: {'C': 12, 'H': 20.5, 'N': 3, 'O': 4, 'e': -1, 'S': 0},
         [('isotopic_distribution', lambda d: P.isotopic_distribution(d, 5, 0.0, 3)),
          ('chem_mass', lambda d: P.chem_mass(d)), ('write_chem_formula', lambda d: P.write_chem_formula(d, hill_order=True)),
          ('write_chem_formula-precision', lambda d: P.write_chem_formula(d, precision=0)),
          ('write_chem_formula-sep', lambda d: P.write_chem_formula(d, sep=' ', precision=1)),
          ('apply_isotope_mods', lambda d: P.apply_isotope_mods_to_composition(d, ['13C'])),
          ('isotopic_distribution-neutron', lambda d: P.isotopic_distribution(d, 4, 0.0, 2, True))]),
        ('glycan-dict', lambda: {'HexNAc': 2, 'Hex': 3},
         [('glycan_mass', lambda d: P.glycan_mass(d)), ('glycan_comp', lambda d: P.glycan_comp(d)),
          ('write_glycan_formula', lambda d: P.write_glycan_formula(d))]),
        ('loss-list', lambda: [('E', -18.0)],
         [('fragment-losses', lambda l: P.fragment('PEPTIDE', 'b', 1, losses=l, water_loss=True, return_type='mz')),
          ('fragment-losses-ammonia', lambda l: P.fragment('PEKTIDE', 'y', 1, losses=l, ammonia_loss=True,
                                                           return_type='label')),
          ('Fragmenter-losses', lambda l: P.Fragmenter('PEPTIDE').fragment('b', 1, losses=l, water_loss=True,
                                                                          return_type='mass'))]),
        ('fragment-list', lambda: frags(),
         [('get_fragment_matches', lambda f: P.get_fragment_matches(f, [300.0, 148.06, 98.06, 500.3], [1.0, 2.0, 3.0, 4.0],
                                                                   0.5, 'th', 'closest')),
          ('binomial_score', lambda f: P.binomial_score(f, [98.06, 148.06, 300.0, 500.3], 0.5, 'th')),
          ('first-mz', lambda f: [x.mz for x in f][:3])]),
        ('mod-list', lambda: ['Acetyl', 1.5, P.Mod('Phospho', 2)],
         [('fix_list_of_mods', lambda l: P.fix_list_of_mods(l)),
          ('create_annotation', lambda l: P.create_annotation('PEPTIDE', nterm_mods=l, internal_mods={1: l})),
          ('mod_mass-list', lambda l: P.mod_mass([m for m in l if not isinstance(m, float)] if False else
                                                 [P.Mod('Acetyl', 1), P.Mod(1.5, 2)])),
          ('apply_static_mods-list', lambda l: P.apply_static_mods('PEPTIDE', {'P': l})),
          ('apply_variable_mods-list', lambda l: P.apply_variable_mods('PEPTIDE', {'P': l}, 1))]),
        ('mod-dict', lambda: {'nterm': 'Acetyl', 2: [1.5], 'charge': 2, 'intervals': (1, 3, False, 'Phospho')},
         [('add_mods-dict', lambda d: P.add_mods('PEPTIDE', d)),
          ('create_annotation-dict', lambda d: P.create_annotation('PEPTIDE', internal_mods={k: v for k, v in d.items()
                                                                                              if isinstance(k, int)}))]),
        ('spectrum-lists', lambda: ([100.0, 200.0, 300.5], [99.9999, 200.0, 200.001, 300.0]),
         [('match_spectra', lambda s: P.match_spectra(s[0], s[1], 0.01, 'th', 'largest', [1.0, 5.0, 2.0, 1.0])),
          ('get_matched_indices', lambda s: P.get_matched_indices(s[0], s[1], 10, 'ppm')),
          ('binomial_score-floats', lambda s: P.binomial_score(s[0], s[1], 0.01, 'th'))]),
        ('distributions', lambda: ([(1.0, 0.5), (2.0, 0.5)], [(1.0, 0.25), (3.0, 0.75)]),
         [('merge_isotopic_distributions', lambda d: P.merge_isotopic_distributions(d[0], d[1]))]),
        # spellings (immutable arguments): what can be shared between these calls is process-wide state only
        ('formula-string', lambda: 'C6H12O6',
         [('parse_chem_formula', lambda f: P.parse_chem_formula(f)), ('chem_mass-str', lambda f: P.chem_mass(f)),
          ('apply_isotope_mods-str', lambda f: P.apply_isotope_mods_to_composition(f, ['13C', 'D'])),
          ('mass-formula-mod', lambda f: P.mass(f'PEPT[Formula:{f}]IDE')),
          ('comp-formula-mod', lambda f: P.comp(f'[Formula:{f}]-PEPTIDE')),
          ('mod_comp-formula', lambda f: P.mod_comp(f'Formula:{f}')),
          ('mass-formula-labelled', lambda f: P.mass(f'<15N>PEPT[Formula:{f}]IDE/2'))]),
        ('glycan-string', lambda: 'HexNAc2Hex3',
         [('parse_glycan_formula', lambda g: P.parse_glycan_formula(g)), ('glycan_comp-str', lambda g: P.glycan_comp(g)),
          ('glycan_mass-str', lambda g: P.glycan_mass(g)), ('mod_comp-glycan', lambda g: P.mod_comp(f'Glycan:{g}')),
          ('mod_mass-glycan', lambda g: P.mod_mass(f'Glycan:{g}')),
          ('comp-glycan-mod', lambda g: P.comp(f'N[Glycan:{g}#g1]K')),
          ('mass-glycan-labelled', lambda g: P.mass(f'<13C>N[Glycan:{g}]K'))]),
        ('name-string', lambda: 'Phospho',
         [('mod_mass-name', lambda n: P.mod_mass(n)), ('mod_comp-name', lambda n: P.mod_comp(n)),
          ('mod_comp-prefixed', lambda n: P.mod_comp(f'U:{n}')),
          ('comp-named-mod', lambda n: P.comp(f'PEPS[{n}]K')),
          ('mass-named-static', lambda n: P.mass(f'<[{n}]@S>PEPSK', monoisotopic=False)),
          ('parse-serialize', lambda n: P.parse(f'[{n}]?PEPS[{n}]^2K').serialize())]),
        ('terminal-rule-string', lambda: '<[TMT6plex]@K,N-term><[+10.5]@C-term>PEPTIDEK/2',
         [('mass-str', lambda t: P.mass(t)), ('mz-avg-str', lambda t: P.mz(t, monoisotopic=False)),
          ('fragment-str', lambda t: P.fragment(t, 'by', [1, 2])),
          ('Fragmenter-str', lambda t: P.Fragmenter(t).fragment(['a', 'y'], 1)),
          ('comp-str', lambda t: P.comp(t, estimate_delta=True)),
          ('condense_static-str', lambda t: P.condense_static_mods(t)),
          ('parse_static_mods', lambda t: P.parse_static_mods(P.parse(t).static_mods)),
          ('digest-str', lambda t: list(P.digest(t, 'trypsin', 0)))]),
        ('xlmod-string', lambda: 'XLMOD:01002',
         [('mod_mass-avg-p1', lambda x: P.mod_mass(x, False, 1)), ('mod_mass-avg', lambda x: P.mod_mass(x, False)),
          ('mod_mass-mono-p2', lambda x: P.mod_mass(x, True, 2)), ('mod_mass-mono', lambda x: P.mod_mass(x)),
          ('mass-avg-p0', lambda x: P.mass(f'PEPTK[{x}]IDE', monoisotopic=False, precision=0)),
          ('mass-avg', lambda x: P.mass(f'PEPTK[{x}]IDE', monoisotopic=False)),
          ('mod_comp', lambda x: P.mod_comp(x))]),
        ('psimod-string', lambda: 'MOD:00046',
         [('mod_mass-avg-p1', lambda x: P.mod_mass(x, False, 1)), ('mod_mass-avg', lambda x: P.mod_mass(x, False)),
          ('mod_mass-mono-p0', lambda x: P.mod_mass(x, True, 0)), ('mod_mass-mono', lambda x: P.mod_mass(x)),
          ('mass-named', lambda x: P.mass(f'PEPS[{x}]K', precision=1)), ('mod_comp', lambda x: P.mod_comp(x))]),
        ('proforma-string', lambda: '<[Carbamidomethyl]@C><13C>[Acetyl]-PEC[Phospho]T(ID)[+15.995]EK/2[+2Na+]',
         [('parse', lambda t: P.parse(t)), ('mass-str', lambda t: P.mass(t)), ('comp-str', lambda t: P.comp(t)),
          ('get_mods-str', lambda t: P.get_mods(t)), ('pop_mods-str', lambda t: P.pop_mods(t)),
          ('fragment-str', lambda t: P.fragment(t, 'by', [1, 2])),
          ('digest-str', lambda t: list(P.digest(t, 'trypsin', 1, return_type='annotation'))),
          ('split-str', lambda t: P.split(t)), ('condense-str', lambda t: P.condense_to_mass_mods(t)),
          ('static-dict', lambda t: P.parse(t).mod_dict())]),
    ]


def outcome(fn, obj, edit=False):
    try:
        r = fn(obj)
        d = deep(r)
        if edit:
            scribble(r)   # clause (e): the result is the caller's to edit
        return ('ok', d)
    except Exception as e:   # the outcome class is part of what must not depend on history
        return ('raise', type(e).__name__)


def run_history(ctx, st, make, calls, kind, shape_id):
    """calls: list of (label, fn). Runs them in order on one shared object; checks clause (d) on the last one."""
    labels = [c[0] for c in calls]
    ctx.begin({'kind': kind, 'shape': shape_id, 'history': labels})
    st.history = labels
    full0 = probes.state_fp()
    state0 = _random.getstate()
    # the last call on a pristine object BEFORE the history (its result is then edited by the caller): process-wide
    # hidden state (memo tables holding a dictionary that a later call or the caller edits) shows up as a difference
    try:
        first = outcome(calls[-1][1], make(), edit=True)
        shared = make()
    except Exception as ex:
        # the factory is a library call on a constant that is built thousands of times in this run: if it starts to
        # raise, earlier calls (or edits of their results) changed what the library does with the same input
        ctx.decided()
        ctx.violation('result-depends-on-earlier-calls-or-on-edits-of-earlier-results',
                      {'history': labels, 'kind': kind, 'shape': shape_id,
                       'building_the_shared_object_raises': f'{type(ex).__name__}: {ex}'[:300]})
        st.history = None
        return
    pristine_dump = deep(shared)
    res = None
    for lab, fn in calls:
        res = outcome(fn, shared, edit=True)
    # (d) the last call on a pristine object
    try:
        fresh = outcome(calls[-1][1], make())
    except Exception as ex:
        fresh = ('factory-raises', type(ex).__name__)
    ctx.decided()
    if len(calls) > 1 and res != fresh:
        ctx.violation('result-depends-on-history', {'history': labels, 'kind': kind, 'shape': shape_id,
                                                    'after_history': repr(res)[:300], 'on_fresh_copy': repr(fresh)[:300]})
    ctx.decided()
    if first != fresh:
        ctx.violation('result-depends-on-earlier-calls-or-on-edits-of-earlier-results',
                      {'history': labels, 'kind': kind, 'shape': shape_id, 'before_history': repr(first)[:300],
                       'after_history_on_fresh_copy': repr(fresh)[:300]})
    # the shared object after the whole history of non-editor calls
    ctx.decided()
    if deep(shared) != pristine_dump:
        ctx.violation('shared-object-changed-by-history', {'history': labels, 'kind': kind, 'shape': shape_id,
                                                           'before': repr(pristine_dump)[:300],
                                                           'after': repr(deep(shared))[:300]})
    full1 = probes.state_fp()
    ctx.decided()
    if full1 != full0:
        ctx.violation('process-state-changed-by-history',
                      {'history': labels, 'what': 'random-generator-state' if full1[0] != full0[0] else 'vocabulary'})
        _random.setstate(state0)
    st.history = None
    ctx.sig((kind, shape_id, labels), len(calls) >= 2)
    if ctx.cases % 211 == 0:
        ctx.sample({'kind': kind, 'shape': shape_id, 'history': labels})


def run(ctx):
    st = State()
    pt = install(ctx, st)
    shapes = SHAPES[:4] if ctx.quick() else SHAPES
    calls = ann_calls(pt)
    k = 0
    for si, text in enumerate(shapes):
        make = (lambda t=text: make_shape(pt, t))
        for a in calls:
            k += 1
            if ctx.mine(k):
                run_history(ctx, st, make, [a], 'annotation', si)
        for a, b in itertools.product(calls, repeat=2):
            k += 1
            if ctx.mine(k):
                run_history(ctx, st, make, [a, b], 'annotation', si)
    for kind, make, ocalls in other_objects(pt):
        for r in (1, 2, 3):
            for combo in itertools.product(ocalls, repeat=r):
                k += 1
                if ctx.mine(k):
                    run_history(ctx, st, make, list(combo), kind, 0)
    rng = ctx.rng
    for _ in range(ctx.n(4000, 200000)):
        si = rng.randrange(len(SHAPES))
        combo = [rng.choice(calls) for _ in range(3)]
        run_history(ctx, st, (lambda t=SHAPES[si]: make_shape(pt, t)), combo, 'annotation', si)
    ctx.extra['purity_contract_evaluations'] = st.purity_evals
    ctx.extra['catalogue_calls'] = len(calls) + sum(len(c) for _k, _m, c in other_objects(pt)) if ctx.shard == 0 else 0


def replay(ctx, case):
    st = State()
    pt = install(ctx, st)
    if case['kind'] == 'annotation':
        table = dict(ann_calls(pt))
        text = SHAPES[case['shape']]
        run_history(ctx, st, (lambda: make_shape(pt, text)), [(l, table[l]) for l in case['history']], 'annotation',
                    case['shape'])
    else:
        for kind, make, ocalls in other_objects(pt):
            if kind == case['kind']:
                table = dict(ocalls)
                run_history(ctx, st, make, [(l, table[l]) for l in case['history']], kind, 0)


SUITE_WORKLOAD = True


def install_generic(ctx):
    """monitor for the repository's own suite: the purity contract on every catalogue function"""
    install(ctx, State())
