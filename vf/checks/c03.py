"""C03 - the mass calculator and the elemental-composition calculator always agree (library vs library)."""
from vf.gen import pep as gp
from vf.ref import atoms, chem, obo
from vf.ref import pep as rp
from vf.ref.pep import M, Iv, Pep, Rule

DECIDING = ['peptacular.mass_calc.mass']
RULE = ('relational post-condition on every mass() execution with resolvable modifications (top-level, nested from '
        'fragment/condense_to_mass_mods): mass == chem_mass(comp_mass(same arguments).composition, mode) + residual; '
        'and chem_mass(comp(..., estimate_delta=True)) == monoisotopic mass. Workload: generated annotations x 18 ion '
        'types x charge -3..4 (5%: two-digit charge states up to 25) or from the string x isotope 0..3 x mode x adducts (string/argument) x labels '
        '13C/15N/18O/D/T x static rules x multipliers x alternatives x tags x intervals x labile x unknown; plus every '
        'Unimod entry (average mode: CHNOPS entries) and every self-consistent PSI-MOD entry. signature = (ion type, '
        'mode, charge class, placements, spelling classes, labels, adducts); non-trivial = a modification, a label, '
        'a non-p ion type or a charge')
ASSUMPTIONS = ['both sides are the library\'s own calculators: the oracle is their agreement',
               'ambiguous residues B/Z and modifications with neither composition nor numeric value are excluded '
               '(both calculators raise)',
               'loss is left at 0 (comp_mass has no loss argument)']
LEVEL_TEXT = ('Every mass() execution observed (incl. the ones the library makes itself) is cross-checked against the '
              'composition calculator by a relational post-condition; held on the executions observed.')
TECHNIQUE = 'runtime monitoring: relational post-condition on mass() calling comp_mass/chem_mass under suspension'

ION_TYPES = list(chem.ALL_ION_TYPES) + ['p', 'n']
LETTERS = [c for c in chem.MASS_LETTERS]
C03_LABELS = ['13C', '15N', '18O', 'D', 'T']
CHNOPS = {'C', 'H', 'N', 'O', 'P', 'S'}


class State:
    def __init__(self):
        self.case_abs_named = None
        self.nested_checked = 0
        self.top_checked = 0
        self.skipped_unresolvable = 0
        self.estimate_checked = 0
        self.kf = None   # per-case classification hints


_SLACK_CACHE = {}


def one_mod_slack(pt, m, mono) -> float:
    """|table mass - mass of table composition| of one modification copy, capped at the statement's
    per-modification tolerance (1e-4 mono; 1e-3 + 5 ppm of the modification mass average)."""
    key = (m.val, mono)
    if key in _SLACK_CACHE:
        return _SLACK_CACHE[key] * m.mult
    d = 0.0
    if isinstance(m.val, str):
        try:
            mm = pt.mod_mass(m.val, mono)
            cm = pt.chem_mass(pt.mod_comp(m.val), monoisotopic=mono)
            cap = 1e-4 if mono else 1e-3 + 5e-6 * abs(mm)
            d = min(abs(mm - cm), cap)
        except Exception:
            d = 0.0
    if len(_SLACK_CACHE) > 50000:
        _SLACK_CACHE.clear()
    _SLACK_CACHE[key] = d
    return d * m.mult


def abs_mod_mass(pt, annotation, mono=True, ion_type='p') -> float:
    """Per-modification allowance summed over every modification copy that contributes to this ion."""
    total = 0.0
    mods = []
    lists = [annotation.unknown_mods, annotation.nterm_mods, annotation.cterm_mods]
    if ion_type == 'p':
        lists.append(annotation.labile_mods)
    for lst in lists:
        if lst:
            mods.extend(lst)
    if annotation.internal_mods:
        for v in annotation.internal_mods.values():
            mods.extend(v)
    if annotation.intervals:
        for iv in annotation.intervals:
            if iv.mods:
                mods.extend(iv.mods)
    for m in mods:
        total += one_mod_slack(pt, m, mono)
    if annotation.static_mods:
        from peptacular.proforma.proforma_parser import parse_static_mods
        for t, ms in parse_static_mods(annotation.static_mods).items():
            k = 1 if t in ('N-Term', 'C-Term') else annotation.sequence.count(t)
            for m in ms:
                total += one_mod_slack(pt, m, mono) * k
    return total


def install(ctx, st: State):
    import peptacular as pt
    from peptacular.proforma.proforma_parser import ProFormaAnnotation
    from peptacular.mass_calc import comp_mass as comp_mass0, comp as comp0
    from peptacular.chem.chem_util import chem_mass as chem_mass0
    from peptacular.sequence.sequence_funcs import sequence_to_annotation as s2a

    def mass_post(call):
        seq = call.arg(0, 'sequence')
        charge = call.arg(1, 'charge', None)
        ion_type = call.arg(2, 'ion_type', 'p')
        mono = call.arg(3, 'monoisotopic', True)
        isotope = call.arg(4, 'isotope', 0)
        loss = call.arg(5, 'loss', 0.0)
        adducts = call.arg(6, 'charge_adducts', None)
        iso_mods = call.arg(7, 'isotope_mods', None)
        on_mods = call.arg(8, 'use_isotope_on_mods', False)
        precision = call.arg(9, 'precision', None)
        try:
            ann = s2a(seq) if isinstance(seq, str) else seq
        except Exception:
            return
        if not isinstance(ann, ProFormaAnnotation):
            return
        try:
            comp, delta = comp_mass0(ann, ion_type, charge, isotope, adducts, iso_mods, on_mods)
            expected = chem_mass0(comp, monoisotopic=mono) + delta + loss
        except Exception as e:
            # the composition side cannot resolve something the mass side resolved
            st.skipped_unresolvable += 1
            ctx.note('comp_side_raises:' + type(e).__name__)
            if call.depth == 0 and st.case_abs_named is not None:
                ctx.decided()
                ctx.violation('comp-raises-where-mass-returns',
                              {'sequence': seq if isinstance(seq, str) else ann.serialize(), 'ion_type': ion_type,
                               'exception': f'{type(e).__name__}: {e}'[:200]})
            return
        ctx.decided()
        if call.depth == 0:
            st.top_checked += 1
        else:
            st.nested_checked += 1
        # base tolerance of the statement + the table rows' own (capped) disagreement, per modification copy
        t = (1e-4 if mono else 1e-3) + abs_mod_mass(pt, ann, mono, ion_type)
        if precision is not None:
            t += 10 ** (-precision) + 1e-9
        obs = call.result
        if abs(obs - expected) > t:
            kf = None
            ad = adducts if adducts is not None else (ann.charge_adducts[0].val if ann.charge_adducts else None)
            if ad is not None and isinstance(ad, str):
                # K2: the mass side removes q electrons per adduct term, the composition side count*q
                try:
                    corr = rp.adduct_mass(ad, mono) - rp.adduct_mass(ad, mono, emulate_k2=True)
                    if abs((obs + corr) - expected) <= t:
                        kf = 'K2'
                except Exception:
                    pass
            if kf is None and not mono and ad is None:
                # K11: average mode weighs every charge carrier as a CODATA proton on the mass side and as an average
                # hydrogen atom minus an electron on the composition side (1.157e-4 Da apart per carrier; the first
                # carrier of a fragment ion is part of its offset formula on both sides)
                z = charge if charge is not None else (ann.charge or 0)
                carriers = z if ion_type in ('p', 'n') else z - 1
                band = atoms.average('H') - atoms.ELECTRON - atoms.PROTON
                if carriers and abs((obs + carriers * band) - expected) <= t:
                    kf = 'K11'
            ctx.violation('mass-differs-from-composition-mass',
                          {'sequence': seq if isinstance(seq, str) else ann.serialize(), 'ion_type': ion_type,
                           'charge': charge, 'monoisotopic': mono, 'isotope': isotope, 'charge_adducts': adducts,
                           'isotope_mods': repr(iso_mods), 'use_isotope_on_mods': on_mods, 'precision': precision,
                           'depth': call.depth, 'mass': obs, 'composition_mass_plus_residual': expected,
                           'difference': obs - expected, 'tolerance': t, 'composition': comp, 'residual': delta},
                          kf=kf)
        # averagine clause (monoisotopic, labels not pushed into the estimate)
        if mono and delta != 0 and not on_mods and call.depth == 0 and precision is None:
            try:
                est = comp0(ann, ion_type, True, charge, isotope, adducts, iso_mods, False)
                em = chem_mass0(est, monoisotopic=True) + loss
            except Exception as e:
                ctx.violation('estimate-delta-raises', {'sequence': ann.serialize(), 'exception': type(e).__name__})
                return
            st.estimate_checked += 1
            ctx.decided()
            if abs(em - obs) > 1e-4 and abs(em - expected) > 1e-6:
                ctx.violation('estimated-composition-mass-differs',
                              {'sequence': ann.serialize(), 'ion_type': ion_type, 'mass': obs, 'estimated': em})

    ctx.eng.attach('peptacular.mass_calc.mass', post=mass_post)
    return pt


def gen_case(rng, cfg):
    p = gp.gen_pep(rng, cfg)
    for m in p.all_mods():
        if m.mult > 3:
            m.mult = 3
    kw = {}
    ion = rng.choice(ION_TYPES) if rng.random() < 0.8 else 'p'
    kw['ion_type'] = ion
    mono = rng.random() < 0.6
    if not mono and any(m.named and not (m.comp is not None and set(atoms.base_element(s) for s in m.comp) <= CHNOPS)
                        for m in p.all_mods()) or any(not m.avg_consistent for m in p.all_mods()):
        mono = True   # average mode is claimed for vocabulary entries made of C,H,N,O,P,S only, and for table rows
        #               whose tabulated average agrees with their own composition (4 S-bearing monosaccharides do not)
    kw['monoisotopic'] = mono
    if rng.random() < 0.5 or (ion not in ('p', 'n') and p.charge is None):
        kw['charge'] = rng.randint(-3, 4)
        if rng.random() < 0.05:
            kw['charge'] = rng.choice([10, 11, 12, 15, 20, 25, -10, -12, -14])   # two-digit charge states
    if rng.random() < 0.4:
        kw['isotope'] = rng.randint(0, 3)
    if rng.random() < 0.12:
        kw['charge_adducts'] = gp.gen_adducts(rng)
    if rng.random() < 0.1 and not p.isotope:
        kw['isotope_mods'] = [rng.choice(C03_LABELS)]
    if (p.isotope or 'isotope_mods' in kw) and rng.random() < 0.4:
        kw['use_isotope_on_mods'] = True if rng.random() < 0.8 else 1    # a flag is a flag
    if rng.random() < 0.25:
        kw['precision'] = rng.choice([2, 3, 4, 5, 6])
    return p, kw


def named_abs(p: Pep) -> float:
    return sum(abs(m.mono or 0.0) * m.mult for m in rp.placed_mods(p, 'p') if not m.is_numeric())


def run_case(ctx, st, pt, p, kw, tag=()):
    text = rp.write(p)
    ctx.begin({'text': text, 'kwargs': kw})
    st.case_abs_named = named_abs(p)
    try:
        pt.mass(text, **kw)
    except Exception as e:
        ctx.note('mass_raises:' + type(e).__name__)
    finally:
        st.case_abs_named = None
    c = kw.get('charge', p.charge)
    labels = sorted(p.isotope) + [str(x) for x in kw.get('isotope_mods', [])]
    nontrivial = bool(p.all_mods()) or bool(labels) or kw.get('ion_type', 'p') != 'p' or bool(c)
    ctx.sig((kw.get('ion_type', 'p'), 'mono' if kw.get('monoisotopic', True) else 'avg',
             'none' if c is None else 'neg' if c < 0 else 'zero' if c == 0 else 'pos',
             p.features(), p.spelling_classes(), labels, 'charge_adducts' in kw or bool(p.adducts),
             kw.get('use_isotope_on_mods', False)) + tuple(tag), nontrivial)
    ctx.sample({'text': text, 'kwargs': kw})




def entry_pep(m: M, placement: str) -> Pep:
    p = Pep('PEPTKDE')
    if placement == 'residue':
        p.res = {3: [m]}
    elif placement == 'nterm':
        p.nterm = [m]
    elif placement == 'cterm':
        p.cterm = [m]
    elif placement == 'interval':
        p.intervals = [Iv(1, 4, False, [m])]
    elif placement == 'unknown':
        p.unknown = [m]
    elif placement == 'labile':
        p.labile = [m]
    elif placement == 'static':
        p.static = [Rule([m], ['P', 'E'])]
    elif placement == 'static-nterm':
        p.static = [Rule([m], ['N-Term'])]
    return p


PLACEMENTS = ['residue', 'nterm', 'cterm', 'interval', 'unknown', 'labile', 'static', 'static-nterm']


def psimod_self_consistent(e) -> bool:
    if e.comp is None:
        return False
    if e.mono is not None and abs(atoms.comp_mass(e.comp, True) - e.mono) > 5e-5:
        return False
    if e.avg is not None and abs(atoms.comp_mass(e.comp, False) - e.avg) > 1e-3 + 5e-6 * abs(e.avg):
        return False
    return True


def run(ctx):
    st = State()
    pt = install(ctx, st)
    ctx.enable_disturb(pt, 0.03)     # other legitimate library calls interleaved between cases (vf.gen.disturb)
    cfg = gp.GenCfg(min_len=1, max_len=14, letters=LETTERS, weights=dict(gp.W_COMP), labels=C03_LABELS,
                    p_isotope=0.25, p_mult=0.2, p_res=0.3, p_interval=0.2, p_unknown=0.2, p_labile=0.25,
                    p_static=0.3, p_static_term=0.4, p_charge=0.35, p_tag=0.1, p_alt=0.1)
    for _ in range(ctx.n(80000, 2000000)):
        p, kw = gen_case(ctx.rng, cfg)
        run_case(ctx, st, pt, p, kw)
    # protein-sized chains (201..320 residues), bare or sparsely modified, all argument combinations (intact-mass work:
    # mass(protein, charge=z, isotope=i))
    import dataclasses as _dc
    longc = _dc.replace(cfg, min_len=201, max_len=320, p_res=0.01, p_interval=0.0, p_unknown=0.05, p_labile=0.05,
                        p_static=0.1, p_isotope=0.1, p_charge=0.2, p_nterm=0.1, p_cterm=0.1)
    for j in range(ctx.n(300, 6000)):
        p, kw = gen_case(ctx.rng, longc)
        if j % 2 == 0:
            p = Pep(p.seq)       # no annotation at all
        kw.setdefault('isotope', ctx.rng.randint(1, 3))
        run_case(ctx, st, pt, p, kw, tag=('long',))
    # vocabulary sweep
    k = 0
    quick = ctx.quick()
    for j, e in enumerate(obo.unimod()):
        places = [PLACEMENTS[j % 8]] if quick else PLACEMENTS
        for pl in places:
            for mono in ((True,) if quick else (True, False)):
                if not mono and not (e.comp and set(atoms.base_element(s) for s in e.comp) <= CHNOPS):
                    continue
                k += 1
                if not ctx.mine(k):
                    continue
                m = M('UNIMOD:' + e.id, mono=e.mono, avg=e.avg, comp=e.comp, kind='unimod-acc', named=True)
                ion = 'p' if pl == 'labile' else ION_TYPES[(j + k) % len(ION_TYPES)]
                run_case(ctx, st, pt, entry_pep(m, pl), {'monoisotopic': mono, 'ion_type': ion, 'charge': 1},
                         tag=('unimod-sweep', pl))
    excluded = 0
    for j, e in enumerate(obo.psimod()):
        if not psimod_self_consistent(e):
            excluded += 1
            continue
        places = [PLACEMENTS[j % 8]] if quick else PLACEMENTS
        for pl in places:
            for mono in ((True,) if quick else (True, False)):
                if not mono and (e.avg is None or not set(atoms.base_element(s) for s in e.comp) <= CHNOPS):
                    continue
                k += 1
                if not ctx.mine(k):
                    continue
                m = M('MOD:' + e.id, mono=e.mono, avg=e.avg, comp=e.comp, kind='psimod-acc', named=True)
                ion = 'p' if pl == 'labile' else ION_TYPES[(j + k) % len(ION_TYPES)]
                run_case(ctx, st, pt, entry_pep(m, pl), {'monoisotopic': mono, 'ion_type': ion, 'charge': 1},
                         tag=('psimod-sweep', pl))
    # nested mass() events: drive the library functions that call mass() themselves
    for _ in range(ctx.n(1500, 40000)):
        p = gp.gen_pep(ctx.rng, gp.GenCfg(min_len=2, max_len=8, letters=LETTERS, weights=dict(gp.W_COMP),
                                          p_interval=0, p_unknown=0, p_isotope=0.2, labels=C03_LABELS, p_charge=0,
                                          p_mult=0.15))
        text = rp.write(p)
        avg_ok = all(m.avg_consistent and (not m.named or (m.comp is not None and
                     set(atoms.base_element(s) for s in m.comp) <= CHNOPS)) for m in p.all_mods())
        ctx.begin({'text': text, 'driver': 'fragment'})
        try:
            pt.fragment(text, ['b', 'y', 'a', 'cz', 'i'], [1, 2], monoisotopic=(ctx.rng.random() < 0.6) or not avg_ok)
        except Exception as e:
            ctx.note('fragment_raises:' + type(e).__name__)
        ctx.begin({'text': text, 'driver': 'condense_to_mass_mods'})
        try:
            pt.condense_to_mass_mods(text)
        except Exception as e:
            ctx.note('condense_raises:' + type(e).__name__)
    ctx.extra['top_level_mass_decisions'] = st.top_checked
    ctx.extra['nested_mass_decisions'] = st.nested_checked
    ctx.extra['estimate_delta_decisions'] = st.estimate_checked
    ctx.extra['psimod_rows_excluded_as_not_self_consistent'] = excluded if ctx.shard == 0 else 0


def reproduce(kf_id):
    import peptacular as pt
    if kf_id == 'K2':
        c, d = pt.comp_mass('PEPTIDE/2[+2Na+]')
        return abs(pt.mass('PEPTIDE/2[+2Na+]') - (pt.chem_mass(c) + d)) > 1e-4
    if kf_id == 'K11':
        c, d = pt.comp_mass('PEPTIDE/12')
        return abs(pt.mass('PEPTIDE/12', monoisotopic=False) - (pt.chem_mass(c, monoisotopic=False) + d)) > 1e-3
    return None


def replay(ctx, case):
    st = State()
    pt = install(ctx, st)
    if case.get('driver') == 'fragment':
        pt.fragment(case['text'], ['b', 'y', 'a', 'cz', 'i'], [1, 2])
    elif case.get('driver') == 'condense_to_mass_mods':
        pt.condense_to_mass_mods(case['text'])
    else:
        kw = dict(case['kwargs'])
        r = pt.mass(case['text'], **kw)
        kw2 = {k: v for k, v in kw.items() if k in ('ion_type', 'charge', 'isotope', 'charge_adducts', 'isotope_mods',
                                                    'use_isotope_on_mods')}
        c, d = pt.comp_mass(case['text'], **kw2)
        print('mass ->', r, ' comp_mass ->', c, d, ' chem_mass(comp)+residual ->',
              pt.chem_mass(c, monoisotopic=kw.get('monoisotopic', True)) + d)


SUITE_WORKLOAD = True


def install_generic(ctx):
    """monitor for the repository's own suite: mass/composition agreement on every mass() execution"""
    install(ctx, State())
