"""C16 - subsequence search and coverage find every occurrence."""
import itertools
from collections import Counter

from vf.gen import pep as gp
from vf.ref import pep as rp
from vf.ref.pep import M, Pep, Rule

DECIDING = ['peptacular.sequence.sequence_funcs.find_subsequence_indices', 'peptacular.sequence.sequence_funcs.coverage']
EXHAUSTIVE = {t: 'every target string of length 0..9 over a two-letter alphabet x every query of length 1..4 '
                 '(30 690 pairs, every overlap pattern)' for t in ('quick', 'thorough')}
RULE = ('post-conditions on find_subsequence_indices / is_subsequence / coverage / percent_coverage with brute-force models '
        'over the generator-side specifications: exhaustive two-letter targets x queries; random modified targets up to 40 '
        'residues with queries cut from them (slice of the specification) or perturbed by one modification; accumulate and '
        'ignore_mods both. signature = (function, overlap class, #occurrences bucket, modified?, perturbed?, options); '
        'non-trivial = the query occurs at least twice or carries a modification')
ASSUMPTIONS = ['the unordered containment clause uses residue-modified peptides without terminal/global annotations, with '
               'same-site modifications written in the target\'s order (the library compares serialised residues)']
LEVEL_TEXT = ('Every search/coverage execution is compared with brute-force models; the two-letter space up to length 9 is '
              'enumerated completely; held on the executions observed.')
TECHNIQUE = 'runtime monitoring: post-conditions with brute-force substring and coverage models'

LETTERS = list('ACDEFGHIKLMNPQRSTVWY')


class State:
    def __init__(self):
        self.last = {}


def install(ctx, st: State):
    import peptacular as pt

    def mk(short):
        def post(call):
            if call.depth == 0:
                st.last[short] = ('ok', call.result)

        def on_raise(call):
            if call.depth == 0:
                st.last[short] = ('raise', f'{type(call.exc).__name__}: {call.exc}'[:160])
        return post, on_raise

    for short in ('find_subsequence_indices', 'is_subsequence', 'coverage', 'percent_coverage'):
        p, r = mk(short)
        ctx.eng.attach('peptacular.sequence.sequence_funcs.' + short, post=p, on_raise=r)
    return pt


def observe(st, pt, fn, *a, **k):
    st.last.pop(fn, None)
    try:
        getattr(pt, fn)(*a, **k)
    except Exception:
        pass
    return st.last.get(fn)


def plain_hits(t, q):
    return [i for i in range(len(t) - len(q) + 1) if t[i:i + len(q)] == q] if q and t else []


def as_collection(rng, items):
    """the listed subsequences as a list, a tuple, or a one-shot iterable (a generator expression, a map - what
    digest() itself returns): the same peptides whatever they arrive in"""
    r = rng.random()
    if r < 0.5:
        return list(items)
    if r < 0.65:
        return tuple(items)
    if r < 0.85:
        return (x for x in items)
    return map(str, items)


def model_hits(T: Pep, Q: Pep):
    out = []
    m = len(Q.seq)
    qf = rp.expected_fields(Q)
    for i in plain_hits(T.seq, Q.seq):
        if rp.expected_fields(rp.slice_pep(T, i, i + m)) == qf:
            out.append(i)
    return out


def cov_model(n, hits_per_query, lens, accumulate):
    cov = [0] * n
    for hits, m in zip(hits_per_query, lens):
        for i in hits:
            for k in range(i, i + m):
                cov[k] = cov[k] + 1 if accumulate else 1
    return cov


def check_find(ctx, st, pt, t_text, q_text, expected, ignore_mods, tag):
    got = observe(st, pt, 'find_subsequence_indices', t_text, q_text, ignore_mods)
    ctx.decided()
    if not got or got[0] != 'ok' or list(got[1]) != expected:
        ctx.violation('subsequence-indices-differ', {'target': t_text, 'query': q_text, 'ignore_mods': ignore_mods,
                                                     'expected': expected, 'observed': got, 'workload': tag})
        return False
    if tag != 'exhaustive' or ctx.rng.random() < 0.05:
        # the same search on annotation objects as other library calls hand them over: a query whose residue-modification
        # dictionary is empty instead of None (digest/slice/pop_internal_mod), a target whose dictionary is out of
        # positional order (reverse/shift/add_internal_mod)
        try:
            with ctx.eng.suspend():
                q_obj = rp.hollowed(pt, q_text)
                t_obj = rp.scrambled(pt, t_text, ctx.rng) if ctx.rng.random() < 0.5 else rp.hollowed(pt, t_text)
        except Exception:
            q_obj = t_obj = None
        if q_obj is not None:
            got = observe(st, pt, 'find_subsequence_indices', t_obj, q_obj, ignore_mods)
            ctx.decided()
            if not got or got[0] != 'ok' or list(got[1]) != expected:
                ctx.violation('subsequence-indices-differ', {'target': t_text, 'query': q_text, 'ignore_mods': ignore_mods,
                                                             'expected': expected, 'observed': got,
                                                             'workload': tag + ' (annotation objects: hollowed query, '
                                                                               'scrambled/hollowed target)'})
                return False
    got = observe(st, pt, 'is_subsequence', q_text, t_text, True)
    ctx.decided()
    if not ignore_mods and (not got or got[0] != 'ok' or bool(got[1]) != bool(expected)):
        ctx.violation('ordered-containment-differs', {'target': t_text, 'query': q_text, 'expected': bool(expected),
                                                      'observed': got})
        return False
    if not ignore_mods:
        # the annotation methods are the same search through another entry point
        ctx.decided()
        try:
            with ctx.eng.suspend():
                qa, ta = pt.parse(q_text), pt.parse(t_text)
                m1 = bool(qa.is_subsequence(ta))
                m2 = list(qa.find_indices(ta))
        except Exception as ex:
            m1, m2 = f'{type(ex).__name__}', None
        if m1 != bool(expected) or m2 != expected:
            ctx.violation('annotation-methods-differ-from-search', {'target': t_text, 'query': q_text,
                                                                    'expected': expected, 'is_subsequence': m1,
                                                                    'find_indices': m2})
            return False
    return True


def exhaustive(ctx, st, pt):
    k = 0
    for n in range(0, 10):
        for t in itertools.product('AK', repeat=n):
            target = ''.join(t)
            k += 1
            if not ctx.mine(k):
                continue
            ctx.begin({'target': target, 'workload': 'exhaustive'})
            all_hits, qs = [], []
            for m in range(1, 5):
                for q in itertools.product('AK', repeat=m):
                    query = ''.join(q)
                    exp = plain_hits(target, query)
                    check_find(ctx, st, pt, target, query, exp, False, 'exhaustive')
                    overlap = any(b - a < m for a, b in zip(exp, exp[1:]))
                    ctx.sig(('find-exhaustive', n, m, min(len(exp), 4), overlap), len(exp) >= 2)
                    if len(qs) < 3 and exp and (k + m) % 3 == 0:
                        qs.append(query)
                        all_hits.append(exp)
            if qs:
                for acc in (False, True):
                    got = observe(st, pt, 'coverage', target, list(qs), acc)
                    ctx.decided()
                    exp = cov_model(n, all_hits, [len(q) for q in qs], acc)
                    if not got or got[0] != 'ok' or list(got[1]) != exp:
                        ctx.violation('coverage-differs', {'target': target, 'queries': qs, 'accumulate': acc,
                                                           'expected': exp, 'observed': got})
                got = observe(st, pt, 'percent_coverage', target, list(qs))
                ctx.decided()
                exp = cov_model(n, all_hits, [len(q) for q in qs], False)
                frac = sum(exp) / n if n else 0
                if not got or got[0] != 'ok' or abs(got[1] - frac) > 1e-12 or not (0 <= got[1] <= 1):
                    ctx.violation('percent-coverage-differs', {'target': target, 'queries': qs, 'expected': frac,
                                                               'observed': got})


def perturb(rng, Q: Pep, T: Pep):
    """change one modification of the query so that it no longer equals the target stretch (returns None if no change)"""
    Q = Q.copy()
    r = rng.random()
    if r < 0.4 and Q.res:
        i = rng.choice(list(Q.res))
        Q.res[i] = Q.res[i] + [M('+0.123', mono=0.123, avg=0.123, kind='float')]
        return Q
    if r < 0.7:
        i = rng.randrange(len(Q.seq))
        if i in Q.res:
            del Q.res[i]
        else:
            Q.res[i] = [M('Methyl', kind='unimod-name', named=True, mono=14.01565, avg=14.0266)]
        return Q
    if r < 0.85 and not Q.nterm:
        Q.nterm = [M('Acetyl', kind='unimod-name', named=True, mono=42.010565, avg=42.0367)]
        return Q
    if Q.res:
        i = rng.choice(list(Q.res))
        m = Q.res[i][0]
        Q.res[i] = [M(m.text, m.mult + 1, m.mono, m.avg, m.comp, m.kind, m.named)] + Q.res[i][1:]
        return Q
    return None


def random_cases(ctx, st, pt):
    rng = ctx.rng
    cfg = gp.GenCfg(min_len=1, max_len=40, letters=list('AKGS') + LETTERS, weights=dict(gp.W_SIMPLE), p_res=0.25,
                    p_interval=0.0, p_charge=0.1, p_isotope=0.15, p_static=0.1, p_labile=0.1, p_unknown=0.05,
                    p_tag=0.0, p_alt=0.0, p_mult=0.1, p_static_term=0.0)
    low = gp.GenCfg(min_len=2, max_len=30, letters=list('AK'), weights=dict(gp.W_SIMPLE), p_res=0.35, p_interval=0.0,
                    p_charge=0.0, p_isotope=0.0, p_static=0.0, p_labile=0.0, p_unknown=0.0, p_tag=0.0, p_alt=0.0,
                    p_nterm=0.3, p_cterm=0.3, p_mult=0.0, max_per_site=1)
    for i in range(ctx.n(25000, 400000)):
        T = gp.gen_pep(rng, low if i % 2 else cfg)
        n = len(T.seq)
        a = rng.randrange(n)
        b = rng.randint(a + 1, min(n, a + rng.choice([1, 2, 3, 5, 8])))
        sib = None
        if rng.random() < 0.12:
            # a residue of the stretch carries one modification twice next to another one ([A][A][B]); the query may
            # carry the other multiplicity ([A][B][B]): same length, same distinct modifications, different multiset
            sib = rng.randrange(a, b)
            A_ = M('+1', mono=1.0, avg=1.0, kind='int')
            B_ = M(rng.choice(['+2', 'Methyl']), mono=2.0, avg=2.0, kind='int')
            T.res[sib] = [A_, M(A_.text, 1, 1.0, 1.0, kind='int'), B_]
        pair = None
        if sib is None and rng.random() < 0.06:
            # one residue carries two shifts whose Python hashes collide (hash(-1) == hash(-2)); the query spells them in
            # the other order - the modifications of a residue are a multiset, so the stretch still matches
            pair = rng.randrange(a, b)
            u, v = rng.choice([('-1', '-2'), ('-1.0', '-2'), ('-2', '-1'), ('1', '1.0000000001')])
            T.res[pair] = [M(u, mono=float(u), avg=float(u), kind='int'), M(v, mono=float(v), avg=float(v), kind='int')]
        Q = rp.slice_pep(T, a, b)
        if pair is not None:
            Q.res[pair - a] = list(reversed(Q.res[pair - a]))
        perturbed = False
        if sib is not None and rng.random() < 0.7:
            x = Q.res[sib - a]
            Q.res[sib - a] = [x[0], M(x[2].text, 1, 2.0, 2.0, kind='int'), x[2]]
            perturbed = True
        elif rng.random() < 0.3:
            P2 = perturb(rng, Q, T)
            if P2 is not None:
                Q, perturbed = P2, True
        t_text, q_text = rp.write(T), rp.write(Q)
        ctx.begin({'target': t_text, 'query': q_text, 'workload': 'random', 'pep_target': rp.to_json(T),
                   'pep_query': rp.to_json(Q)})
        exp = model_hits(T, Q)
        ok = check_find(ctx, st, pt, t_text, q_text, exp, False, 'random')
        exp_plain = plain_hits(T.seq, Q.seq)
        check_find(ctx, st, pt, t_text, q_text, exp_plain, True, 'random')
        if ok and rng.random() < 0.5:
            # coverage with a second query
            c = rng.randrange(n)
            Q2 = rp.slice_pep(T, c, rng.randint(c + 1, min(n, c + 4)))
            q2_text = rp.write(Q2)
            for ign in (False, True):
                hits = [model_hits(T, Q), model_hits(T, Q2)] if not ign else \
                    [plain_hits(T.seq, Q.seq), plain_hits(T.seq, Q2.seq)]
                for acc in (False, True):
                    got = observe(st, pt, 'coverage', t_text, as_collection(rng, [q_text, q2_text]), acc, ign)
                    ctx.decided()
                    expc = cov_model(n, hits, [len(Q.seq), len(Q2.seq)], acc)
                    if not got or got[0] != 'ok' or list(got[1]) != expc:
                        ctx.violation('coverage-differs', {'target': t_text, 'queries': [q_text, q2_text],
                                                           'accumulate': acc, 'ignore_mods': ign, 'expected': expc,
                                                           'observed': got})
                got = observe(st, pt, 'percent_coverage', t_text, as_collection(rng, [q_text, q2_text]), ign)
                ctx.decided()
                expc = cov_model(n, hits, [len(Q.seq), len(Q2.seq)], False)
                if not got or got[0] != 'ok' or abs(got[1] - sum(expc) / n) > 1e-12 or not (0 <= got[1] <= 1):
                    ctx.violation('percent-coverage-differs', {'target': t_text, 'queries': [q_text, q2_text],
                                                               'ignore_mods': ign, 'expected': sum(expc) / n,
                                                               'observed': got})
        overlap = any(y - x < len(Q.seq) for x, y in zip(exp_plain, exp_plain[1:]))
        ctx.sig(('find-random', min(len(exp), 3), min(len(exp_plain), 3), overlap, bool(Q.all_mods()), perturbed,
                 T.features()), len(exp_plain) >= 2 or bool(Q.all_mods()))
        ctx.sample({'target': t_text, 'query': q_text, 'expected': exp})
    # order-insensitive containment = multiset containment of modified residues
    res_only = gp.GenCfg(min_len=1, max_len=15, letters=list('AKGSP'), weights={'int': 1, 'unimod-name': 2}, p_res=0.4,
                         p_interval=0, p_charge=0, p_isotope=0, p_static=0, p_labile=0, p_unknown=0, p_nterm=0, p_cterm=0,
                         p_tag=0, p_alt=0, p_mult=0.1)
    for _ in range(ctx.n(10000, 200000)):
        T = gp.gen_pep(rng, res_only)
        n = len(T.seq)
        T_written = T
        if rng.random() < 0.3:
            # the target carries global rules on residues (two rules may name the same residue): its modified residues
            # are the rule-expanded ones, the query spells them out
            T_written = T.copy()
            for _r in range(rng.randint(1, 2)):
                mods = [M(rng.choice(['Oxidation', 'Carbamidomethyl', 'Phospho', '+1.5', '10']), kind='rule')]
                T_written.static.append(Rule(mods, rng.sample(list('AKGSP'), rng.randint(1, 2))))
            T = rp.explicit_static(T_written)
        idx = [rng.randrange(n) for _ in range(rng.randint(1, min(n + 1, 5)))]
        if rng.random() < 0.5:
            idx = sorted(set(idx))
        rng.shuffle(idx)
        Q = Pep(''.join(T.seq[i] for i in idx))
        for k, i in enumerate(idx):
            if i in T.res:
                Q.res[k] = [M(m.text, m.mult, m.mono, m.avg, m.comp, m.kind, m.named) for m in T.res[i]]
        if rng.random() < 0.3:
            k = rng.randrange(len(Q.seq))
            if k in Q.res:
                del Q.res[k]
            else:
                Q.res[k] = [M('Methyl', kind='unimod-name', named=True)]
        t_text, q_text = rp.write(T_written), rp.write(Q)
        ctx.begin({'target': t_text, 'query': q_text, 'workload': 'unordered'})

        def bag(p):
            return Counter((p.seq[i], tuple((m.val(), m.mult) for m in p.res.get(i, []))) for i in range(len(p.seq)))
        bt, bq = bag(T), bag(Q)
        exp = all(bq[k] <= bt[k] for k in bq)
        got = observe(st, pt, 'is_subsequence', q_text, t_text, False)
        ctx.decided()
        if not got or got[0] != 'ok' or bool(got[1]) != exp:
            ctx.violation('unordered-containment-differs', {'target': t_text, 'query': q_text, 'expected': exp,
                                                            'observed': got})
        ctx.sig(('unordered', exp, bool(Q.res), len(set(idx)) != len(idx), len(T_written.static)), True)


def run(ctx):
    st = State()
    pt = install(ctx, st)
    ctx.enable_disturb(pt, 0.01)     # other legitimate library calls interleaved between cases (vf.gen.disturb)
    exhaustive(ctx, st, pt)
    random_cases(ctx, st, pt)


def replay(ctx, case):
    st = State()
    pt = install(ctx, st)
    t, q = case['target'], case.get('query')
    if q is None:
        print('exhaustive case for target', t)
        for m in range(1, 5):
            for qq in itertools.product('AK', repeat=m):
                check_find(ctx, st, pt, t, ''.join(qq), plain_hits(t, ''.join(qq)), False, 'exhaustive')
        return
    if 'pep_target' in case:
        T, Q = rp.from_json(case['pep_target']), rp.from_json(case['pep_query'])
        check_find(ctx, st, pt, t, q, model_hits(T, Q), False, 'random')
        check_find(ctx, st, pt, t, q, plain_hits(T.seq, Q.seq), True, 'random')
    else:
        print(observe(st, pt, 'is_subsequence', q, t, False))
