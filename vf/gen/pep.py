"""Structured workload generator: draws `Pep` specifications with controllable feature switches."""
import copy
import re
from dataclasses import dataclass, field
from functools import lru_cache
from typing import Callable, Dict, List, Optional

from vf.ref import atoms, chem, obo
from vf.ref.pep import M, Iv, Pep, Rule, canonical

LABELS = ['13C', '15N', '18O', '17O', '34S', 'D', 'T', '2H']
ADDUCT_IONS = ['H+', 'Na+', 'K+', 'Li+', 'Mg2+', 'Ca2+', 'Cl-', 'I-', 'e-']
ADDUCT_COUNTS = [-2, -1, 1, 2, 3]


def balanced(s: str, o: str, c: str) -> bool:
    d = 0
    for ch in s:
        if ch == o:
            d += 1
        elif ch == c:
            d -= 1
            if d < 0:
                return False
    return d == 0


def writable(name: str, context: str = '[]') -> bool:
    """Can this vocabulary name be written verbatim inside the given bracket kind?"""
    if name == '' or '|' in name or '#' in name or '^' in name:
        return False
    if isinstance(canonical(name), (int, float)):
        return False
    if not balanced(name, '[', ']'):
        return False
    if context == '{}' and not balanced(name, '{', '}'):
        return False
    if context == '<>' and '@' in name:     # '<' and '>' inside the bracketed name are part of the name ('Gln->pyro-Glu')
        return False
    if name != name.strip():
        return False
    return True


class Vocab:
    """Vocabulary-backed modification factories (names, accessions, prefixed spellings)."""

    def __init__(self):
        self.unimod = obo.unimod()
        self.psimod = obo.psimod()
        self.xlmod = obo.xlmod()
        self.mono = obo.monosaccharides()
        psi_names = {e.name for e in self.psimod}
        psi_ids = {e.id for e in self.psimod}
        uni_names = {e.name for e in self.unimod}
        # bare names resolve through PSI-MOD before Unimod: keep only names that are unambiguous
        self.unimod_bare = [e for e in self.unimod if writable(e.name) and e.name not in psi_names
                            and e.name not in psi_ids and not self._prefixed(e.name)]
        self.psimod_bare = [e for e in self.psimod if writable(e.name) and e.name not in uni_names
                            and not self._prefixed(e.name)]
        self.unimod_simple = [e for e in self.unimod_bare if ':' not in e.name]
        self.unimod_colon = [e for e in self.unimod_bare if ':' in e.name]
        self.psimod_mass = [e for e in self.psimod_bare if e.mono is not None]
        # names that contain words or characters the notation itself uses (a terminus keyword, a comma, '@', '>', a
        # parenthesis): a few dozen of ~3500, so uniform sampling would hardly ever use one inside a rule
        import re as _re
        odd = _re.compile(r'term|,|@|>|<|\(|\)|\?|/|\+|-$', _re.I)
        self.psimod_odd = [e for e in self.psimod_mass if odd.search(e.name) and ':' not in e.name]
        self.unimod_odd = [e for e in self.unimod_simple if odd.search(e.name)]
        self.xl_mass = [e for e in self.xlmod if e.mono is not None and writable(e.name)]
        self.excluded_names = (len(self.unimod) - len(self.unimod_bare)) + (len(self.psimod) - len(self.psimod_bare))

    @staticmethod
    def _prefixed(name: str) -> bool:
        low = name.lower()
        return low.startswith(('glycan:', 'gno:', 'g:', 'xlmod:', 'x:', 'resid:', 'r:', 'info:', 'mod:', 'm:',
                               'psi-mod:', 'unimod:', 'u:', 'formula:', 'obs:'))


@lru_cache(maxsize=1)
def vocab() -> Vocab:
    return Vocab()


# ---------------------------------------------------------------------------------------------
# modification factories: each returns an M with its a-priori mass / composition when known
# ---------------------------------------------------------------------------------------------

def _fmt_float(x: float) -> str:
    s = repr(round(x, 6))
    return s


def m_int(rng, **_) -> M:
    v = rng.choice([1, 2, 3, 10, 15, 16, 42, 57, 80, 100, 114, 229, -1, -17, -18, -48])
    sign = rng.choice(['+', '']) if v > 0 else ''
    return M(f'{sign}{v}', mono=float(v), avg=float(v), kind='int')


def m_float(rng, **_) -> M:
    v = rng.choice([15.994915, 0.984016, 79.966331, 42.010565, 57.021464, 1.0, 3.14, 100.5, 0.5, 1234.56789,
                    -17.026549, -18.010565, -1.007825, -0.984016, 2.0, 229.162932])
    if rng.random() < 0.3:
        v = round(rng.uniform(-300, 800), rng.choice([1, 2, 3, 4, 5, 6]))
        if v == int(v):
            v += 0.5
    if rng.random() < 0.04:
        # very small shifts: Python writes them in exponent notation ('1e-05'), the text must still read back as a number
        v, t = rng.choice([(1e-05, '0.00001'), (1e-05, '1e-05'), (-2e-05, '-0.00002'), (1.5e-05, '0.000015'),
                           (3e-06, '3e-06'), (-2e-05, '-2e-05'),
                           # below 1e-4 AND more than six decimals: nothing may be lost when the value is written back
                           (1.25e-05, '0.0000125'), (-1.234e-05, '-0.00001234'), (7.31e-07, '0.000000731'),
                           (4.49e-05, '0.0000449'), (6.468e-05, '6.468e-05'), (-4.25e-05, '-0.0000425')])
        sign = rng.choice(['+', '']) if v > 0 else ''
        return M(f'{sign}{t}', mono=v, avg=v, kind='float-tiny')
    sign = rng.choice(['+', '']) if v > 0 else ''
    return M(f'{sign}{_fmt_float(v)}', mono=v, avg=v, kind='float')


FORMULA_ELEMENTS = ['C', 'H', 'N', 'O', 'S', 'P', 'Na', 'Cl', 'Br', 'F', 'Se', 'K', 'Fe', 'I', 'Li', 'Mg', 'Ca']
FORMULA_ISOTOPES = ['13C', '15N', '18O', '2H', 'D', '34S', '17O', 'T']


def rand_formula(rng, allow_negative=True, max_terms=5) -> (str, dict):
    comp: Dict[str, int] = {}
    parts = []
    for _ in range(rng.randint(1, max_terms)):
        if rng.random() < 0.25:
            sym = rng.choice(FORMULA_ISOTOPES)
            cnt = rng.randint(1, 9)
            if allow_negative and rng.random() < 0.1:
                cnt = -cnt
            if rng.random() < 0.04:
                cnt = 0     # an absent isotope spelled out ([13C0]), as label-swap templates write it
            parts.append(f'[{sym}{cnt}]' if (cnt != 1 or rng.random() < 0.5) else f'[{sym}]')
        else:
            sym = rng.choice(FORMULA_ELEMENTS[:6] if rng.random() < 0.8 else FORMULA_ELEMENTS)
            cnt = rng.randint(1, 24)
            if allow_negative and rng.random() < 0.15:
                cnt = -cnt
            if rng.random() < 0.04:
                cnt = 0     # template-generated formulas spell out absent elements (C2H3N1O1S0)
            parts.append(f'{sym}{cnt}' if (cnt != 1 or rng.random() < 0.5) else sym)
        comp[sym] = comp.get(sym, 0) + cnt
    return ''.join(parts), {k: v for k, v in comp.items()}


def m_formula(rng, **_) -> M:
    text, comp = rand_formula(rng)
    pre = rng.choice(['Formula:', 'Formula:', 'formula:', 'FORMULA:'])
    return M(pre + text, mono=atoms.comp_mass(comp, True), avg=atoms.comp_mass(comp, False), comp=comp,
             kind='formula-iso' if '[' in text else 'formula')


def _uni(e, text, kind) -> M:
    return M(text, mono=e.mono, avg=e.avg, comp=e.comp, kind=kind, named=True)


def m_unimod_name(rng, context='[]', **_) -> M:
    v = vocab()
    for _i in range(20):
        e = rng.choice(v.unimod_simple if rng.random() < 0.7 else v.unimod_bare)
        if v.unimod_odd and rng.random() < 0.06:
            e = rng.choice(v.unimod_odd)
        if writable(e.name, context):
            return _uni(e, e.name, 'unimod-colon-name' if ':' in e.name else 'unimod-name')
    return _uni(v.unimod_simple[0], v.unimod_simple[0].name, 'unimod-name')


def m_unimod_acc(rng, **_) -> M:
    e = rng.choice(vocab().unimod)
    pre = rng.choice(['UNIMOD:', 'U:', 'Unimod:', 'u:', 'unimod:'])
    return _uni(e, pre + e.id, 'unimod-acc')


def m_unimod_pref_name(rng, context='[]', colon=False, **_) -> M:
    v = vocab()
    pool = v.unimod_colon if colon else v.unimod_simple
    for _i in range(20):
        e = rng.choice(pool)
        if writable(e.name, context):
            pre = rng.choice(['U:', 'UNIMOD:', 'Unimod:', 'u:'])
            return _uni(e, pre + e.name, 'unimod-pref-colon-name' if colon else 'unimod-pref-name')
    return m_unimod_acc(rng)


def m_psimod_name(rng, context='[]', need_mass=True, **_) -> M:
    v = vocab()
    for _i in range(30):
        e = rng.choice(v.psimod_mass if need_mass else v.psimod_bare)
        if v.psimod_odd and rng.random() < 0.08:
            e = rng.choice(v.psimod_odd)
        if writable(e.name, context) and ':' not in e.name:
            pre = rng.choice(['', 'M:', 'MOD:', 'm:', 'PSI-MOD:'])
            return M(pre + e.name, mono=e.mono, avg=e.avg, comp=e.comp, named=True,
                     kind='psimod-name' if not pre else 'psimod-pref-name')
    return m_unimod_name(rng, context)


def m_psimod_acc(rng, need_mass=True, **_) -> M:
    v = vocab()
    e = rng.choice(v.psimod_mass if need_mass else v.psimod)
    pre = rng.choice(['MOD:', 'M:', 'mod:', 'PSI-MOD:'])
    return M(pre + e.id, mono=e.mono, avg=e.avg, comp=e.comp, named=True, kind='psimod-acc')


def m_xlmod(rng, context='[]', **_) -> M:
    v = vocab()
    for _i in range(30):
        e = rng.choice(v.xl_mass)
        pre = rng.choice(['XLMOD:', 'X:', 'x:'])
        if rng.random() < 0.5:
            return M(pre + e.id, mono=e.mono, avg=None, comp=e.comp, named=True, kind='xlmod-acc')
        if writable(e.name, context) and ':' not in e.name:
            return M(pre + e.name, mono=e.mono, avg=None, comp=e.comp, named=True, kind='xlmod-name')
    e = v.xl_mass[0]
    return M('XLMOD:' + e.id, mono=e.mono, avg=None, comp=e.comp, named=True, kind='xlmod-acc')


def m_glycan(rng, **_) -> M:
    from vf.ref import glycan as _g
    v = vocab()
    while True:
        ents = rng.sample(v.mono, rng.randint(1, 3))
        cnts = [rng.randint(1, 5) for _ in ents]
        # an entry is written by its name or by one of its registered synonyms (NeuAc, dHex, HexA, Fucose ...)
        spell = [rng.choice([e.name] + list(e.synonyms)) if rng.random() < 0.4 else e.name for e in ents]
        text = ''.join(s + str(c) for s, c in zip(spell, cnts))
        want = [(s, str(c)) for s, c in zip(spell, cnts)]
        # written so that both the exhaustive and the maximal-munch reading give back the written counts
        if _g.segmentations(text, 2) == [want] and _g.greedy(text) == want:
            break
    mono = sum(e.mono * c for e, c in zip(ents, cnts))
    avg = sum(e.avg * c for e, c in zip(ents, cnts))
    comp = {}
    for e, c in zip(ents, cnts):
        comp = chem.add(comp, e.comp, c)
    ok = all(abs(e.avg - atoms.comp_mass(e.comp, False)) <= 5e-6 * e.avg for e in ents)
    return M('Glycan:' + text, mono=mono, avg=avg, comp=comp, kind='glycan', avg_consistent=ok)


def m_obs(rng, **_) -> M:
    v = round(rng.uniform(-50, 300), rng.choice([1, 3, 5]))
    if v == 0:
        v = 0.0     # never write '+-0.0'
    sign = '+' if v >= 0 and rng.random() < 0.7 else ''
    return M(f'{rng.choice(["Obs:", "obs:"])}{sign}{v!r}', mono=v, avg=v, kind='obs')


def m_info(rng, **_) -> M:
    t = rng.choice(['newly discovered', 'x', 'some, text (here)', 'a:b', 'Site 12'])
    return M(f'INFO:{t}', mono=None, avg=None, kind='info', resolvable=False)


def m_tag_only(rng, **_) -> M:
    g = rng.choice(['g1', 'g2', 'XL1', 's1'])
    score = rng.choice(['', '', f'({rng.choice([0.01, 0.5, 0.9, 1.0])})'])
    return M(f'#{g}{score}', mono=0.0, avg=0.0, comp={}, kind='tag-only')


def with_tag(rng, m: M) -> M:
    g = rng.choice(['g1', 'g2', 'XL1'])
    score = rng.choice(['', f'({rng.choice([0.01, 0.5, 0.99])})'])
    return M(f'{m.text}#{g}{score}', m.mult, m.mono, m.avg, m.comp, m.kind + '+tag', m.named, m.resolvable,
             m.avg_consistent)


def with_alt(rng, m: M) -> M:
    """'|'-separated alternatives that denote the same thing (INFO text, or an Obs: of the same mass)."""
    r = rng.random()
    if r < 0.4:
        text = f'{m.text}|INFO:{rng.choice(["note", "second look"])}'
    elif r < 0.7:
        text = f'INFO:{rng.choice(["note", "x y"])}|{m.text}'
    else:
        text = f'{m.text}|Obs:{"+" if m.mono is not None and m.mono >= 0 else ""}{m.mono!r}'
        if m.mono is None:
            text = f'{m.text}|INFO:z'
    return M(text, m.mult, m.mono, m.avg, m.comp, m.kind + '+alt', m.named, m.resolvable, m.avg_consistent)


FACTORIES: Dict[str, Callable] = {
    'int': m_int, 'float': m_float, 'formula': m_formula, 'unimod-name': m_unimod_name,
    'unimod-acc': m_unimod_acc, 'unimod-pref-name': m_unimod_pref_name,
    'unimod-pref-colon-name': lambda rng, **k: m_unimod_pref_name(rng, colon=True, **k),
    'psimod-name': m_psimod_name, 'psimod-acc': m_psimod_acc, 'xlmod': m_xlmod, 'glycan': m_glycan,
    'obs': m_obs, 'info': m_info, 'tag-only': m_tag_only,
}

# default spelling weights per purpose
W_ALL = {'int': 2, 'float': 3, 'formula': 2, 'unimod-name': 4, 'unimod-acc': 2, 'unimod-pref-name': 2,
         'unimod-pref-colon-name': 1, 'psimod-name': 2, 'psimod-acc': 1, 'xlmod': 1, 'glycan': 1, 'obs': 1,
         'info': 1, 'tag-only': 1}
W_MASS = {'int': 2, 'float': 3, 'formula': 3, 'unimod-name': 4, 'unimod-acc': 2, 'unimod-pref-name': 1, 'glycan': 1}
W_COMP = {'int': 2, 'float': 3, 'formula': 3, 'unimod-name': 4, 'unimod-acc': 2, 'glycan': 1, 'obs': 1,
          'tag-only': 1}
W_NUMFORM = {'int': 2, 'float': 3, 'formula': 3}
W_SIMPLE = {'int': 2, 'float': 2, 'unimod-name': 3, 'formula': 1}


@dataclass
class GenCfg:
    min_len: int = 1
    max_len: int = 12
    letters: List[str] = field(default_factory=lambda: list(chem.STANDARD20))
    weights: Dict[str, float] = field(default_factory=lambda: dict(W_ALL))
    p_res: float = 0.25
    max_per_site: int = 2
    p_mult: float = 0.1
    p_tag: float = 0.08
    p_alt: float = 0.08
    p_nterm: float = 0.3
    p_cterm: float = 0.3
    p_labile: float = 0.2
    p_unknown: float = 0.15
    p_static: float = 0.25
    p_static_term: float = 0.3
    p_isotope: float = 0.15
    p_interval: float = 0.2
    p_charge: float = 0.3
    p_adducts: float = 0.4        # given a charge
    p_rule_collision: float = 0.12  # given static rules
    p_single: float = 0.08          # reduce the peptide to exactly one kind of annotation
    neg_charge: bool = True
    labels: List[str] = field(default_factory=lambda: list(LABELS))
    shuffle_start: bool = True
    max_static_rules: int = 2
    static_weights: Optional[Dict[str, float]] = None


def pick_kind(rng, weights: Dict[str, float]) -> str:
    ks = list(weights)
    return rng.choices(ks, weights=[weights[k] for k in ks])[0]


def gen_mod(rng, cfg: GenCfg, context: str = '[]', allow_mult: bool = True, weights=None) -> M:
    kind = pick_kind(rng, weights or cfg.weights)
    m = FACTORIES[kind](rng, context=context)
    if m.kind not in ('tag-only', 'info') and not m.kind.startswith('obs'):
        r = rng.random()
        if r < cfg.p_tag and context != '<>':
            m = with_tag(rng, m)
        elif r < cfg.p_tag + cfg.p_alt and m.mono is not None:
            m = with_alt(rng, m)
    if allow_mult and rng.random() < cfg.p_mult:
        m.mult = rng.randint(2, 5) if rng.random() < 0.9 else rng.choice([10, 11, 12, 25, 100])   # two/three-digit ^n
    if context == '{}' and not balanced(m.text, '{', '}'):
        return gen_mod(rng, cfg, context, allow_mult, weights)
    if context == '<>' and '@' in m.text:      # '<' / '>' inside the bracketed value belong to the value
        return gen_mod(rng, cfg, context, allow_mult, weights)
    return m


def gen_mods(rng, cfg: GenCfg, context='[]', allow_mult=True, weights=None, max_n=None) -> List[M]:
    n = 1
    mx = max_n or cfg.max_per_site
    while n < mx and rng.random() < 0.3:
        n += 1
    return [gen_mod(rng, cfg, context, allow_mult, weights) for _ in range(n)]


def gen_adducts(rng) -> str:
    parts = []
    for _ in range(rng.randint(1, 3)):
        ion = rng.choice(ADDUCT_IONS)
        cnt = rng.choice(ADDUCT_COUNTS)
        if cnt == 1:
            c = rng.choice(['+', '+', ''])
        elif cnt == -1:
            c = '-'
        elif cnt > 0:
            c = f'+{cnt}' if rng.random() < 0.8 else f'{cnt}'
        else:
            c = f'{cnt}'
        parts.append(f'{c}{ion}')
    return ','.join(parts)


def gen_intervals(rng, cfg: GenCfg, n: int) -> List[Iv]:
    ivs: List[Iv] = []
    if n < 1:
        return ivs
    pos = 0
    style = rng.choice(['start', 'middle', 'end', 'adjacent', 'any'])
    while pos < n and len(ivs) < 3:
        if style == 'start' and not ivs:
            s = 0
        elif style == 'end' and not ivs:
            s = rng.randint(pos, n - 1)
            ivs.append(Iv(s, n, rng.random() < 0.4, gen_mods(rng, cfg) if rng.random() < 0.7 else []))
            break
        else:
            s = rng.randint(pos, n - 1) if not (style == 'adjacent' and ivs) else pos
        if s >= n:
            break
        e = rng.randint(s + 1, n)
        ivs.append(Iv(s, e, rng.random() < 0.4, gen_mods(rng, cfg) if rng.random() < 0.7 else []))
        pos = e
        if style in ('start', 'middle', 'end') or rng.random() < 0.4:
            if style != 'adjacent':
                break
        if style == 'adjacent' and len(ivs) >= 2:
            break
    return ivs


def gen_pep(rng, cfg: GenCfg) -> Pep:
    n = rng.randint(cfg.min_len, cfg.max_len)
    seq = ''.join(rng.choice(cfg.letters) for _ in range(n))
    p = Pep(seq)
    for i in range(n):
        if rng.random() < cfg.p_res:
            p.res[i] = gen_mods(rng, cfg)
    if rng.random() < cfg.p_nterm:
        p.nterm = gen_mods(rng, cfg)
    if rng.random() < cfg.p_cterm:
        p.cterm = gen_mods(rng, cfg)
    if rng.random() < cfg.p_labile:
        p.labile = gen_mods(rng, cfg, context='{}')
    if rng.random() < cfg.p_unknown:
        p.unknown = gen_mods(rng, cfg)
    if rng.random() < cfg.p_static and n > 0:
        used = set()
        for _ in range(rng.randint(1, cfg.max_static_rules)):
            cands = [c for c in sorted(set(seq) | set(rng.sample(cfg.letters, min(2, len(cfg.letters)))))
                     if c not in used]
            if rng.random() < cfg.p_static_term:
                cands = cands + ['N-Term', 'C-Term']
            cands = [c for c in cands if c not in used]
            if not cands:
                break
            k = min(len(cands), rng.choice([1, 1, 2, 3]))
            targets = rng.sample(cands, k)
            if rng.random() < 0.6:
                used.update(targets)    # otherwise a later rule may name the same target again (rules accumulate)
            mods = gen_mods(rng, cfg, context='<>', allow_mult=False, weights=cfg.static_weights or cfg.weights)
            spelling = {}
            for t in targets:
                if t in ('N-Term', 'C-Term') and rng.random() < 0.35:
                    # ProForma writes 'N-term' / 'C-term'; the targets are case-insensitive keywords
                    spelling[t] = rng.choice([t[0] + '-term', t[0] + '-term', t.lower(), t.upper()])
            p.static.append(Rule(mods, targets, spelling))
    if p.static and rng.random() < cfg.p_rule_collision:
        # a target of a global rule already carries the very same modification explicitly (rule and explicit copy add up)
        r = rng.choice(p.static)
        t = rng.choice(r.targets)
        if t == 'N-Term':
            p.nterm = p.nterm + copy.deepcopy(r.mods)
        elif t == 'C-Term':
            p.cterm = p.cterm + copy.deepcopy(r.mods)
        else:
            where = [i for i, aa in enumerate(seq) if aa == t]
            if where:
                i = rng.choice(where)
                p.res[i] = p.res.get(i, []) + copy.deepcopy(r.mods)
    if rng.random() < cfg.p_isotope and cfg.labels:
        labs = rng.sample(cfg.labels, rng.choice([1, 1, 2]))
        # at most one label per element
        seen, keep = set(), []
        for lab in labs:
            el = 'H' if lab in ('D', 'T') else atoms.base_element(lab)
            if el not in seen:
                seen.add(el)
                keep.append(lab)
        p.isotope = keep
    if rng.random() < cfg.p_interval and n >= 1:
        p.intervals = gen_intervals(rng, cfg, n)
    if rng.random() < cfg.p_charge:
        c = rng.randint(1, 6)
        if cfg.neg_charge and rng.random() < 0.25:
            c = -rng.randint(1, 4)
        elif rng.random() < 0.05:
            c = rng.choice([10, 11, 12, 15, 20, 25])   # protein-sized charge states: two-digit counts
        p.charge = c
        p.charge_text = f'+{c}' if (c > 0 and rng.random() < 0.3) else str(c)
        if rng.random() < cfg.p_adducts:
            p.adducts = gen_adducts(rng)
    if rng.random() < cfg.p_single:
        # exactly ONE kind of annotation on the whole peptide (fast paths that ask "is there any modification?" take
        # the wrong branch only when the one kind they forget is the only kind present)
        present = [k for k, v in (('labile', p.labile), ('static', p.static), ('isotope', p.isotope),
                                  ('unknown', p.unknown), ('nterm', p.nterm), ('cterm', p.cterm), ('res', p.res),
                                  ('intervals', p.intervals), ('charge', p.charge is not None)) if v]
        if len(present) >= 2:
            keep = rng.choice(present)
            if keep != 'labile':
                p.labile = []
            if keep != 'static':
                p.static = []
            if keep != 'isotope':
                p.isotope = []
            if keep != 'unknown':
                p.unknown = []
            if keep != 'nterm':
                p.nterm = []
            if keep != 'cterm':
                p.cterm = []
            if keep != 'res':
                p.res = {}
            if keep != 'intervals':
                p.intervals = []
            if keep != 'charge':
                p.charge, p.charge_text, p.adducts = None, None, None
    if cfg.shuffle_start:
        order = ['labile', 'static', 'isotope']
        rng.shuffle(order)
        p.start_order = order
    return p


def signature(p: Pep, extra=()) -> str:
    return ','.join(p.features() + ['|'] + p.spelling_classes() + list(extra))
