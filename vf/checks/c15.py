"""C15 - chemical and glycan formulas survive a write/parse round trip and add linearly."""
import os

from vf.ref import nist, atoms, chem, obo
from vf.ref import glycan as rg

DECIDING = ['peptacular.chem.chem_util.parse_chem_formula', 'peptacular.chem.chem_util.write_chem_formula',
            'peptacular.glycan.parse_glycan_formula']
RULE = ('compositions over every element of the bundled table, isotope-prefixed elements, D/T and the particles e/p/n '
        'with integer counts in [-200,500] or decimals with up to 4 places; separators "", " ", "|"; hill_order both; '
        'multisets of the 27 monosaccharides (names and synonyms) with counts in [-5,20]; 30% of the compositions are followed at once by two siblings that differ in one small count (-1/-2, 1/2, 1/1.0 ...). Post-conditions: '
        'parse(write(c)) == c minus zeros, chem_mass(text) == chem_mass(c) == sum over an independent reading of the NIST table (all 84 elements with natural abundances, both modes), parse(a+b) == parse(a)+parse(b), bracketed '
        'isotopes stay distinct, an unambiguously written glycan (exhaustive segmentation has exactly one reading) parses '
        'to its counts, glycan_comp/glycan_mass equal count-weighted sums over the independently read monosaccharide '
        'table, name and synonym agree; 2% of the cases are glycan texts whose only reading is not the longest-name-first one (Neu5Acetyl...), with repeated names. signature = (clause, separator, hill order, key kinds, count kinds); '
        'non-trivial = at least two keys')
ASSUMPTIONS = ['counts are written by Python float/int formatting; magnitudes that would need exponent notation are not generated',
               'for the separated forms the composition has at least one non-zero entry']
LEVEL_TEXT = ('Every parse/write/mass execution on generated compositions is checked by post-conditions against the '
              'composition it was written from and against independent table sums; held on the executions observed.')
TECHNIQUE = 'runtime monitoring: post-conditions on the seven formula functions with generator-side ground truth'


def table_keys():
    """(element symbols, isotope keys) read from the bundled NIST text (data) with a tiny reader."""
    path = os.path.join(obo.data_dir(), 'chem.txt')
    elements, isotopes = [], []
    sym = None
    with open(path) as f:
        for line in f:
            if line.startswith('Atomic Symbol'):
                sym = line.split('=')[1].strip()
            elif line.startswith('Mass Number') and sym:
                a = int(line.split('=')[1].strip())
                if sym in ('D', 'T'):
                    continue
                if sym not in elements:
                    elements.append(sym)
                isotopes.append(f'{a}{sym}')
    return elements, isotopes + ['D', 'T', '2H', '3H']


class State:
    def __init__(self):
        self.last = {}
        self.n = {}


def install(ctx, st: State):
    import peptacular as pt

    def mk(short):
        def post(call):
            if call.depth == 0:
                st.last[short] = ('ok', call.result)

        def on_raise(call):
            if call.depth == 0:
                st.last[short] = ('raise', f'{type(call.exc).__name__}: {call.exc}'[:160])
        return post, on_raise

    for dotted, short in (('peptacular.chem.chem_util.parse_chem_formula', 'parse_chem_formula'),
                          ('peptacular.chem.chem_util.write_chem_formula', 'write_chem_formula'),
                          ('peptacular.chem.chem_util.chem_mass', 'chem_mass'),
                          ('peptacular.glycan.parse_glycan_formula', 'parse_glycan_formula'),
                          ('peptacular.glycan.write_glycan_formula', 'write_glycan_formula'),
                          ('peptacular.glycan.glycan_comp', 'glycan_comp'),
                          ('peptacular.mass_calc.glycan_mass', 'glycan_mass')):
        p, r = mk(short)
        ctx.eng.attach(dotted, post=p, on_raise=r)
    return pt


def observe(st, pt, fn, *a, **k):
    st.last.pop(fn, None)
    try:
        getattr(pt, fn)(*a, **k)
    except Exception:
        pass
    st.n[fn] = st.n.get(fn, 0) + 1
    return st.last.get(fn)


def close(a: dict, b: dict) -> bool:
    ka = {k for k, v in a.items() if v != 0}
    kb = {k for k, v in b.items() if v != 0}
    return ka == kb and all(abs(a[k] - b[k]) <= 1e-9 * max(1.0, abs(a[k])) for k in ka)


def gen_count(rng, frac_ok=True):
    r = rng.random()
    if frac_ok and r < 0.25:
        v = round(rng.uniform(-200, 500), rng.choice([1, 2, 3, 4]))
        if abs(v) < 1e-3:
            v = 0.5
        return v
    if r < 0.3:
        return 0
    return rng.randint(-200, 500)


def gen_comp(rng, elements, isotopes, particles=True):
    comp = {}
    kinds = set()
    for _ in range(rng.randint(1, 6)):
        r = rng.random()
        if r < 0.6:
            k = rng.choice(elements if rng.random() < 0.5 else ['C', 'H', 'N', 'O', 'S', 'P', 'Na', 'Cl', 'Se', 'Fe'])
            kinds.add('element')
        elif r < 0.85:
            k = rng.choice(isotopes if rng.random() < 0.5 else ['13C', '15N', '18O', '2H', 'D', 'T', '34S'])
            kinds.add('isotope')
        elif particles:
            k = rng.choice(['e', 'p', 'n'])
            kinds.add('particle')
        else:
            continue
        comp[k] = gen_count(rng)
    return comp, kinds


SIBLING_COUNTS = [(-1, -2), (-2, -1), (1, 2), (2, 1), (1, 1.0), (1.0, 1), (0, 1), (1, 0), (2, -2), (1, -1), (-1, 1),
                  (10, 100), (-1.0, -2.0), (0.5, 1.5), (12, 21)]


def chem_clauses(ctx, st, pt, rng, elements, isotopes, fixed=None):
    if fixed is not None:
        comp, kinds, sep, hill = fixed
    else:
        comp, kinds = gen_comp(rng, elements, isotopes)
        sep = rng.choice(['', '', ' ', '|'])
        hill = rng.random() < 0.5
    nz = {k: v for k, v in comp.items() if v != 0}
    if sep != '' and not nz:
        return
    ctx.begin({'composition': comp, 'sep': sep, 'hill_order': hill})
    w = observe(st, pt, 'write_chem_formula', dict(comp), sep, hill)
    ctx.decided()
    if not w or w[0] != 'ok':
        ctx.violation('write_chem_formula-raises', {'composition': comp, 'sep': sep, 'observed': w})
        return
    text = w[1]
    back = observe(st, pt, 'parse_chem_formula', text, sep)
    ctx.decided()
    if not back or back[0] != 'ok' or not close(back[1], nz):
        ctx.violation('formula-round-trip-differs', {'composition': comp, 'sep': sep, 'hill_order': hill, 'text': text,
                                                     'parsed_back': back})
        return
    # the parsed composition is the caller's: editing it must not change what the same text parses to next time
    snap = dict(back[1])
    try:
        for k0 in list(back[1])[:1]:
            back[1][k0] = back[1][k0] + 2
        back[1]['Zz'] = 9
    except Exception:
        pass
    again = observe(st, pt, 'parse_chem_formula', text, sep)
    ctx.decided()
    if not again or again[0] != 'ok' or again[1] != snap:
        ctx.violation('parse-result-depends-on-edits-of-an-earlier-result', {'text': text, 'first': snap,
                                                                            'second': again})
        return
    # mass of the string equals the mass of the composition (both modes)
    for mono in (True, False):
        a = observe(st, pt, 'chem_mass', text, mono, None, sep)
        b = observe(st, pt, 'chem_mass', dict(nz), mono)
        ctx.decided()
        ok = a and b and a[0] == b[0] and (a[0] == 'raise' or abs(a[1] - b[1]) <= 1e-9 * max(1.0, abs(b[1])))
        if not ok:
            ctx.violation('mass-of-text-differs-from-mass-of-composition', {'composition': comp, 'text': text,
                                                                            'monoisotopic': mono, 'text_mass': a,
                                                                            'composition_mass': b})
        # and both equal the sum over an independent reading of the NIST table (every element, both modes)
        ref = nist.comp_mass(nz, mono)
        if ref is not None and b and b[0] == 'ok':
            ctx.decided()
            if abs(b[1] - ref) > 1e-9 * max(1.0, abs(ref)) + 1e-7:
                ctx.violation('mass-of-composition-differs-from-table-sum', {'composition': comp, 'monoisotopic': mono,
                                                                             'observed': b[1], 'table_sum': ref})
    ctx.sig(('round-trip', sep, hill, sorted(kinds), any(isinstance(v, float) for v in comp.values()),
             any(v < 0 for v in comp.values()), any(v == 0 for v in comp.values())), len(nz) >= 2)
    if sep == '':
        # additivity and isotope distinctness on concatenations
        comp2, kinds2 = gen_comp(rng, elements, isotopes)
        if rng.random() < 0.5 and nz:
            k0 = rng.choice(list(nz))          # force a repeated element
            comp2[k0] = gen_count(rng)
        if rng.random() < 0.3:
            comp2['13C'] = rng.randint(1, 9)   # bracketed isotope next to its element
            comp2['C'] = rng.randint(1, 9)
        w2 = observe(st, pt, 'write_chem_formula', dict(comp2), '', rng.random() < 0.5)
        if w2 and w2[0] == 'ok':
            joined = text + w2[1]
            p = observe(st, pt, 'parse_chem_formula', joined)
            ctx.decided()
            want = chem.add({k: v for k, v in comp.items()}, comp2)
            if not p or p[0] != 'ok' or not close(p[1], want):
                ctx.violation('formula-parsing-not-additive', {'a': text, 'b': w2[1], 'parsed': p, 'expected_sum': want})
            elif ('13C' in want and 'C' in want) and not ('13C' in p[1] and 'C' in p[1]):
                ctx.violation('bracketed-isotope-merged-with-element', {'text': joined, 'parsed': p})
            ctx.sig(('additive', sorted(kinds | kinds2), bool(set(comp) & set(comp2))), True)
    ctx.sample({'composition': comp, 'sep': sep, 'hill_order': hill, 'text': text})
    if fixed is None and comp and rng.random() < 0.3:
        # sibling compositions, written back to back in the same process: same keys in the same order, same options, one
        # count differing by a small step (a result remembered from the first must not answer for the second)
        k0 = rng.choice(list(comp))
        u, v = rng.choice(SIBLING_COUNTS)
        for val in (u, v):
            sib = dict(comp)
            sib[k0] = val
            if sep != '' and not any(x != 0 for x in sib.values()):
                continue
            chem_clauses(ctx, st, pt, rng, elements, isotopes, fixed=(sib, kinds | {'sibling'}, sep, hill))


def glycan_clauses(ctx, st, pt, rng):
    ents = obo.monosaccharides()
    chosen = rng.sample(ents, rng.randint(1, 4))
    counts, ref_comp, mono, avg = {}, {}, 0.0, 0.0
    use_syn = False
    for e in chosen:
        name = e.name
        if e.synonyms and rng.random() < 0.3:
            name = rng.choice(e.synonyms)
            use_syn = True
        c = rng.randint(-5, 20) if rng.random() < 0.8 else round(rng.uniform(-5, 20), rng.choice([1, 2]))
        if c == 0:
            c = 1
        counts[name] = c
        ref_comp = chem.add(ref_comp, e.comp, c)
        mono += e.mono * c
        avg += e.avg * c
        if e.synonyms and rng.random() < 0.2:
            # the same monosaccharide a second time under another registered spelling: the counts add
            other = rng.choice([s_ for s_ in [e.name] + list(e.synonyms) if s_ != name])
            c2 = rng.randint(1, 6)
            counts[other] = c2
            use_syn = True
            ref_comp = chem.add(ref_comp, e.comp, c2)
            mono += e.mono * c2
            avg += e.avg * c2
    sep = rng.choice(['', '', ' '])
    ctx.begin({'glycan': counts, 'sep': sep})
    w = observe(st, pt, 'write_glycan_formula', dict(counts), sep)
    ctx.decided()
    if not w or w[0] != 'ok':
        ctx.violation('write_glycan_formula-raises', {'glycan': counts, 'observed': w})
        return
    text = w[1]
    want = [(k, str(v)) for k, v in counts.items()]
    unamb = sep != '' or rg.segmentations(text, 2) == [want]
    if unamb:
        p = observe(st, pt, 'parse_glycan_formula', text, sep)
        ctx.decided()
        if not p or p[0] != 'ok' or not close(p[1], counts):
            ctx.violation('unambiguous-glycan-does-not-parse-to-its-counts', {'glycan': counts, 'text': text,
                                                                              'parsed': p,
                                                                              'maximal_munch_reading': rg.greedy(text)})
    if unamb and sep == '' and rng.random() < 0.3:
        # a name written a second time adds to its count (as a repeated element does in a chemical formula)
        name0 = rng.choice(list(counts))
        extra = rng.randint(1, 4)
        text2 = text + name0 + str(extra)
        want2 = [(k, str(v)) for k, v in counts.items()] + [(name0, str(extra))]
        if rg.segmentations(text2, 2) == [want2]:
            exp2 = dict(counts)
            exp2[name0] = exp2[name0] + extra
            p2 = observe(st, pt, 'parse_glycan_formula', text2, '')
            ctx.decided()
            if not p2 or p2[0] != 'ok' or not close(p2[1], exp2):
                ctx.violation('repeated-glycan-name-does-not-add-up', {'text': text2, 'expected': exp2, 'parsed': p2})
    # composition and mass from the dictionary (no tokenizer involved)
    gc = observe(st, pt, 'glycan_comp', dict(counts))
    ctx.decided()
    if not gc or gc[0] != 'ok' or not close({k: v for k, v in gc[1].items()}, ref_comp):
        ctx.violation('glycan_comp-differs-from-table-sum', {'glycan': counts, 'observed': gc, 'expected': ref_comp})
    for mono_mode, ref in ((True, mono), (False, avg)):
        gm = observe(st, pt, 'glycan_mass', dict(counts), mono_mode)
        ctx.decided()
        if not gm or gm[0] != 'ok' or abs(gm[1] - ref) > 1e-6 * max(1.0, abs(ref)) * 1e-3 + 1e-6:
            ctx.violation('glycan_mass-differs-from-table-sum', {'glycan': counts, 'monoisotopic': mono_mode,
                                                                 'observed': gm, 'expected': ref})
    if unamb and sep == '':
        gm = observe(st, pt, 'glycan_mass', text, True)
        ctx.decided()
        if not gm or gm[0] != 'ok' or abs(gm[1] - mono) > 1e-6:
            ctx.violation('glycan_mass-of-text-differs', {'text': text, 'observed': gm, 'expected': mono})
    ctx.sig(('glycan', sep, use_syn, len(counts), any(isinstance(v, float) for v in counts.values()),
             any(v < 0 for v in counts.values()), unamb), len(counts) >= 2)
    ctx.sample({'glycan': counts, 'sep': sep, 'text': text})


def glycan_hard(ctx, st, pt, rng):
    """Texts whose only reading is not the longest-name-first one ('Neu5Acetyl2': Neu x5 + Acetyl x2, while the longest
    name at the start is Neu5Ac), written from a token LIST so that a name may occur more than once; the expected
    counts are the per-name sums of the one segmentation the exhaustive reader finds."""
    by_name = {}
    for e in obo.monosaccharides():
        for nm in [e.name] + list(e.synonyms):
            by_name[nm] = e
    simple = [n for n in by_name if n.isalpha() and n not in ('Neu5Ac', 'Neu5Gc')]
    toks = [(rng.choice(simple), rng.randint(1, 6)) for _ in range(rng.randint(0, 2))]
    toks += [('Neu', 5), (rng.choice(['Acetyl', 'Acetyl', 'Ac']), rng.randint(1, 4))]
    toks += [(rng.choice(simple), rng.randint(1, 6)) for _ in range(rng.randint(0, 2))]
    if rng.random() < 0.7:
        rep = rng.choice(toks)[0]
        toks.insert(rng.randrange(len(toks) + 1) if rng.random() < 0.5 else len(toks), (rep, rng.randint(1, 5)))
    text = ''.join(f'{n}{c}' for n, c in toks)
    segs = rg.segmentations(text, 2)
    if len(segs) != 1:
        return
    exp, mono = {}, 0.0
    for n, c in segs[0]:
        exp[n] = exp.get(n, 0) + int(c)
        mono += by_name[n].mono * int(c)
    ctx.begin({'glycan_text': text, 'tokens': toks})
    p = observe(st, pt, 'parse_glycan_formula', text, '')
    ctx.decided()
    if not p or p[0] != 'ok' or not close(p[1], exp):
        ctx.violation('unambiguous-glycan-does-not-parse-to-its-counts', {'text': text, 'expected': exp, 'parsed': p,
                                                                          'maximal_munch_reading': rg.greedy(text)})
        return
    gm = observe(st, pt, 'glycan_mass', text, True)
    ctx.decided()
    if not gm or gm[0] != 'ok' or abs(gm[1] - mono) > 1e-6:
        ctx.violation('glycan_mass-of-text-differs', {'text': text, 'observed': gm, 'expected': mono})
    ctx.sig(('glycan-not-greedy', len(toks), len(exp) < len(toks), rg.greedy(text) is None), True)


def run(ctx):
    st = State()
    pt = install(ctx, st)
    ctx.enable_disturb(pt, 0.01)     # other legitimate library calls interleaved between cases (vf.gen.disturb)
    elements, isotopes = table_keys()
    ctx.extra['table_elements'] = len(elements) if ctx.shard == 0 else 0
    ctx.extra['table_isotope_keys'] = len(isotopes) if ctx.shard == 0 else 0
    for i in range(ctx.n(250000, 4000000)):
        if i % 50 == 49:
            glycan_hard(ctx, st, pt, ctx.rng)
        elif i % 4 == 3:
            glycan_clauses(ctx, st, pt, ctx.rng)
        else:
            chem_clauses(ctx, st, pt, ctx.rng, elements, isotopes)
    # name vs synonym, exhaustively
    if ctx.shard == 0:
        for e in obo.monosaccharides():
            for syn in e.synonyms:
                ctx.begin({'name': e.name, 'synonym': syn})
                for fn in ('glycan_comp', 'glycan_mass'):
                    a = observe(st, pt, fn, {e.name: 2})
                    b = observe(st, pt, fn, {syn: 2})
                    ctx.decided()
                    if a != b:
                        ctx.violation('synonym-differs-from-name', {'name': e.name, 'synonym': syn, 'function': fn,
                                                                    'by_name': a, 'by_synonym': b})
                ctx.sig(('synonym', e.name), True)
    for k, v in st.n.items():
        ctx.extra['calls_' + k] = v


def replay(ctx, case):
    st = State()
    pt = install(ctx, st)
    if 'glycan' in case:
        w = observe(st, pt, 'write_glycan_formula', case['glycan'], case['sep'])
        print('written:', w)
        if w and w[0] == 'ok':
            print('parsed:', observe(st, pt, 'parse_glycan_formula', w[1], case['sep']),
                  'segmentations:', rg.segmentations(w[1], 3))
    elif 'composition' in case:
        w = observe(st, pt, 'write_chem_formula', case['composition'], case['sep'], case['hill_order'])
        print('written:', w)
        if w and w[0] == 'ok':
            print('parsed back:', observe(st, pt, 'parse_chem_formula', w[1], case['sep']))
