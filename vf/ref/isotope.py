"""Independent isotope-pattern references: exact multinomial expansion (small formulas) and a replay of
"convolve per element, drop products below a floor" used only to size the allowance of the mean clause."""
import itertools
import math
from typing import Dict, List, Tuple

from vf.ref import atoms


def multinomial_element(sym: str, n: int) -> List[Tuple[float, float, int]]:
    """[(mass, abundance, neutron offset)] of n atoms of one element, exact."""
    pat = atoms.isotope_pattern(sym)
    if sym in ('D', 'T') or sym[0].isdigit():
        return [(pat[0][0] * n, 1.0, 0)]
    isos = [(a, m, ab) for a, m, ab in atoms.ISOTOPES[sym] if ab > 0]
    a0 = max(isos, key=lambda t: t[2])[0]
    out = []
    k = len(isos)
    for counts in itertools.product(range(n + 1), repeat=k):
        if sum(counts) != n:
            continue
        coef = math.factorial(n)
        for c in counts:
            coef //= math.factorial(c)
        ab, mass, off = float(coef), 0.0, 0
        for c, (a, m, p) in zip(counts, isos):
            ab *= p ** c
            mass += m * c
            off += (a - a0) * c
        out.append((mass, ab, off))
    return out


def exact_pattern(comp: Dict[str, int]) -> List[Tuple[float, float, int]]:
    """Exact peaks (mass, abundance, neutron offset) of an integer composition (small formulas only)."""
    total = [(0.0, 1.0, 0)]
    for sym, n in comp.items():
        el = multinomial_element(sym, n)
        total = [(m1 + m2, a1 * a2, o1 + o2) for (m1, a1, o1) in total for (m2, a2, o2) in el]
    return total


def replay_mean(comp: Dict[str, int], floor: float = 1e-8, resolution: int = 5) -> Tuple[float, float]:
    """(abundance-weighted mean, total abundance) of the pattern obtained by repeated convolution per element with
    every product below `floor` dropped, then convolution across elements with rounding to `resolution`."""
    total = {0.0: 1.0}
    for sym, n in comp.items():
        pat = atoms.isotope_pattern(sym)
        dist = {0.0: 1.0}
        for _ in range(int(n)):
            nxt: Dict[float, float] = {}
            for m1, a1 in dist.items():
                for m2, a2 in pat:
                    a = a1 * a2
                    if a >= floor:
                        m = m1 + m2
                        nxt[m] = nxt.get(m, 0.0) + a
            dist = nxt
        nxt = {}
        for m1, a1 in total.items():
            for m2, a2 in dist.items():
                m = round(m1 + m2, resolution)
                nxt[m] = nxt.get(m, 0.0) + a1 * a2
        total = nxt
    s = sum(total.values())
    mean = sum(m * a for m, a in total.items()) / s if s else 0.0
    return mean, s
