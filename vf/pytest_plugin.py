"""pytest plugin: runs the repository's own suite as a workload under the generic monitors of one property.

    VF_PLUGIN_PROP=C03 VF_PLUGIN_OUT=/tmp/x.json pytest -p vf.pytest_plugin ...

The monitors are the ones the check module installs for its own workload (C01 round trip on every parse/serialize,
C03 mass/composition agreement on every mass(), C08 purity contract on the catalogue, C09 outcome class of parse).
The result is written in the same format as a shard result and merged by vf.run (thorough tier).
"""
import json
import os
import warnings

_CTX = None


def pytest_configure(config):
    global _CTX
    prop = os.environ.get('VF_PLUGIN_PROP')
    if not prop:
        return
    import vf  # noqa: F401
    from vf.engine.verdict import Ctx
    from vf.run import check_module
    warnings.simplefilter('ignore')
    mod = check_module(prop)
    ctx = Ctx(prop, 'thorough', int(os.environ.get('VERIF_SEED', '0') or 0), 0, 1)
    ctx.extra['workload'] = "repository test-suite under monitors"
    mod.install_generic(ctx)
    _CTX = ctx


def pytest_runtest_setup(item):
    if _CTX is not None:
        _CTX.begin({'repository_test': item.nodeid})


def pytest_unconfigure(config):
    if _CTX is None:
        return
    _CTX.eng.detach_all()
    _CTX.sig(('repository-suite', _CTX.prop), True)
    _CTX.sig(('repository-suite-events', min(sum(_CTX.eng.events.values()), 1) > 0), True)
    out = os.environ.get('VF_PLUGIN_OUT')
    if out:
        r = _CTX.result()
        r['extra']['suite_monitored_events'] = int(sum(_CTX.eng.events.values()))
        with open(out, 'w') as f:
            json.dump(r, f)
