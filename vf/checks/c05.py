"""C05 - fragment ion series obey the chemistry of peptide backbone cleavage."""
from vf.gen import pep as gp
from vf.ref import atoms, chem
from vf.ref import pep as rp
from vf.ref.pep import Pep

DECIDING = ['peptacular.fragmentation.fragment', 'peptacular.mass_calc.mass',
            'peptacular.fragmentation.Fragmenter.fragment']
RULE = ('peptides of length 2..15 over the 20 standard letters + U,O with numeric/formula modifications on residues and '
        'termini (15%: the text also carries a charge state /z); fragment(all 16 ion types, charges 1..4), '
        'Fragmenter(...).fragment(same) and mass(ion_type=...) are observed and the identities '
        'b_i+y_(n-i)=M+2H+, a=b-CO, c=b+NH3, x=y+CO-H2, z=y-NH3, immonium=residue-CO+H+, internal XY(i,j)=X_j+Y_(n-i)-M-H+, '
        'z-fold charge adds (z-1)H+, and "a modification shifts exactly the ions containing it" are evaluated between '
        'observed values, with only CO, NH3, H2, H+ and residue masses taken from the reference atom table. '
        'signature = (length, mode, modification placements, max charge); non-trivial = length >= 3 or a modification')
ASSUMPTIONS = ['average mode: an identity that adds k explicit protons is checked to 1e-5 + k*1.16e-4 (CODATA proton vs '
               'average hydrogen minus an electron; the statement does not fix the convention); series offsets between '
               'equally charged ions (a/b/c, x/y/z) cancel the carrier and are checked to 1e-5 in both modes; monoisotopic: 1e-5',
               'immonium ions of a terminal residue are not compared when that terminus carries a modification (the '
               'statement does not say whether such an ion contains the terminus)']
LEVEL_TEXT = ('Ion-series identities are evaluated on the observed output of every monitored fragment()/mass() '
              'execution; held on the executions observed.')
TECHNIQUE = 'runtime monitoring: post-condition on fragment()/mass() evaluating backbone-cleavage identities between observed values'

LETTERS = list('ACDEFGHIKLMNPQRSTVWYUO')
BAND = 1.16e-4


def const(mono):
    f = atoms.mono if mono else atoms.average
    return {
        'CO': f('C') + f('O'), 'NH3': f('N') + 3 * f('H'), 'H2': 2 * f('H'), 'H+': atoms.PROTON, 'H': f('H'),
        'H2O': 2 * f('H') + f('O'),
    }


class State:
    def __init__(self):
        self.case = None
        self.identities = 0
        self.reported = set()


def install(ctx, st: State):
    import peptacular as pt

    def frag_post(call):
        c = st.case
        if c is None or call.depth != 0 or c.get('phase') != 'fragment':
            return
        c['frags'] = call.result

    def fragmenter_post(call):
        c = st.case
        if c is None or c.get('phase') != 'fragmenter':
            return
        c['frags2'] = call.result

    def mass_post(call):
        c = st.case
        if c is None or call.depth != 0 or c.get('phase') != 'mass':
            return
        c['masses'][c['key']] = call.result

    ctx.eng.attach('peptacular.fragmentation.fragment', post=frag_post)
    ctx.eng.attach('peptacular.mass_calc.mass', post=mass_post)
    ctx.eng.attach('peptacular.fragmentation.Fragmenter.fragment', post=fragmenter_post)
    return pt


def viol(ctx, st, c, kind, detail, kf=None):
    key = (kind, detail.get('ion_type'), kf)
    if key in st.reported:
        ctx.viol_counts[f'{kind}|{kf or ""}'] += 1
        if kf:
            ctx.kf_counts[kf] += 1
        return
    st.reported.add(key)
    detail = dict(detail)
    detail['text'] = c['text']
    detail['monoisotopic'] = c['mono']
    ctx.violation(kind, detail, kf=kf)


def check(ctx, st, c):
    p, mono, frags, M = c['pep'], c['mono'], c['frags'], c['M']
    n = len(p.seq)
    K = const(mono)
    st.reported = set()
    ion = {}
    for f in frags:
        ion[(f.ion_type, f.start, f.end, f.charge)] = f.mass

    def tol(k):
        return 1e-5 + (0.0 if mono else k * BAND)

    def eq(kind, ion_type, lhs, rhs, k, extra, kf_h=False):
        st.identities += 1
        ctx.decided()
        if abs(lhs - rhs) > tol(k):
            kf = None
            if kf_h and abs((lhs - rhs) - K['H']) <= tol(k):
                kf = 'K9'
            d = {'ion_type': ion_type, 'lhs': lhs, 'rhs': rhs, 'difference': lhs - rhs}
            d.update(extra)
            viol(ctx, st, c, kind, d, kf)

    b = {i: ion.get(('b', 0, i, 1)) for i in range(1, n + 1)}
    y = {j: ion.get(('y', n - j, n, 1)) for j in range(1, n + 1)}
    # complementarity
    for i in range(1, n):
        if b[i] is not None and y[n - i] is not None:
            eq('b+y-complementarity', 'b/y', b[i] + y[n - i], M + 2 * K['H+'], 2, {'i': i})
    # series offsets
    for i in range(1, n + 1):
        if b[i] is not None:
            a = ion.get(('a', 0, i, 1))
            cc = ion.get(('c', 0, i, 1))
            if a is not None:
                eq('a=b-CO', 'a', a, b[i] - K['CO'], 0, {'i': i})
            if cc is not None:
                eq('c=b+NH3', 'c', cc, b[i] + K['NH3'], 0, {'i': i})
        if y[i] is not None:
            x = ion.get(('x', n - i, n, 1))
            z = ion.get(('z', n - i, n, 1))
            if x is not None:
                eq('x=y+CO-H2', 'x', x, y[i] + K['CO'] - K['H2'], 0, {'j': i})
            if z is not None:
                eq('z=y-NH3', 'z', z, y[i] - K['NH3'], 0, {'j': i})
    # immonium = residue - CO + H+
    for i in range(n):
        im = ion.get(('i', i, i + 1, 1))
        if im is None:
            continue
        if (i == 0 and p.nterm) or (i == n - 1 and p.cterm):
            continue
        res = chem.residue_mass(p.seq[i], mono) + sum(m.mass(mono) for m in p.res.get(i, []))
        eq('immonium=residue-CO+H+', 'i', im, res - K['CO'] + K['H+'], 1, {'i': i})
    # internal ions
    term = {'a': 'b', 'b': 'b', 'c': 'b', 'x': 'y', 'y': 'y', 'z': 'y'}
    for t in chem.INTERNAL:
        X, Y = t[0], t[1]
        for i in range(1, n):
            for j in range(i + 1, n):
                v = ion.get((t, i, j, 1))
                if v is None:
                    continue
                xj = ion.get((X, 0, j, 1))
                yi = ion.get((Y, i, n, 1))
                if xj is None or yi is None:
                    continue
                eq('internal=X_j+Y_(n-i)-M-H+', t, v, xj + yi - M - K['H+'], 3, {'i': i, 'j': j},
                   kf_h=t in ('ax', 'az', 'bx', 'bz'))
    # charge states
    for (t, s, e, z), v in ion.items():
        if z > 1:
            base = ion.get((t, s, e, 1))
            if base is not None:
                eq('z-fold-charge-adds-(z-1)H+', t, v, base + (z - 1) * K['H+'], z, {'span': (s, e), 'charge': z})
    # modifications shift exactly the ions that contain them
    u = c.get('unmod')
    if u is not None:
        for f in u:
            if f.charge != 1:
                continue
            v = ion.get((f.ion_type, f.start, f.end, 1))
            if v is None:
                continue
            if f.ion_type == 'i' and ((f.start == 0 and p.nterm) or (f.end == n and p.cterm)):
                continue
            delta = sum(m.mass(mono) for k in range(f.start, f.end) for m in p.res.get(k, []))
            if f.start == 0 and f.ion_type != 'i':
                delta += sum(m.mass(mono) for m in p.nterm)
            if f.end == n and f.ion_type != 'i':
                delta += sum(m.mass(mono) for m in p.cterm)
            eq('modification-shifts-containing-ions-only', f.ion_type, v - f.mass, delta, 0,
               {'span': (f.start, f.end)})
    # whole-peptide ions through mass(ion_type=...)
    for (t, z), v in c['masses'].items():
        if t == 'p':
            continue
        off = atoms.comp_mass(chem.add(chem.ion_offset(t), chem.WATER, -1), mono)
        eq('mass(ion_type)=M-H2O+offset+zH+', t, v, M + off + z * K['H+'], z, {'charge': z},
           kf_h=t in ('ax', 'az', 'bx', 'bz'))


def run_case(ctx, st, pt, p: Pep, mono, charges, types=None):
    text = rp.write(p)
    ctx.begin({'text': text, 'pep': rp.to_json(p), 'monoisotopic': mono, 'charges': charges})
    c = {'pep': p, 'text': text, 'mono': mono, 'masses': {}, 'frags': None}
    st.case = c
    try:
        c['phase'] = 'mass'
        c['key'] = ('p', 0)
        pt.mass(text, charge=0, monoisotopic=mono)   # the neutral peptide, also when the text carries a charge state
        c['M'] = c['masses'].get(('p', 0))
        for t in ['b', 'y', 'a', 'c', 'x', 'z', 'by', 'ay', 'cz', 'bx']:
            z = ctx.rng.choice([1, 2, 3])
            c['key'] = (t, z)
            pt.mass(text, ion_type=t, charge=z, monoisotopic=mono)
        c['phase'] = 'fragment'
        r = ctx.rng.random()
        # the peptide as text, as a parsed annotation, or as an equal annotation whose modification dictionary is out of
        # positional order (what reverse()/programmatic construction leave behind)
        arg = text if r < 0.6 else pt.parse(text) if r < 0.8 else rp.scrambled(pt, text, ctx.rng)
        types = list(types or chem.ALL_ION_TYPES)
        if ctx.rng.random() < 0.3:
            pt.fragment(arg, types, charges, mono)       # the documented positional order
        else:
            pt.fragment(arg, types, charges, monoisotopic=mono)
        frags = c['frags']
        if p.res or p.nterm or p.cterm:
            c['frags'] = None
            pt.fragment(p.seq, types, [1], monoisotopic=mono)
            c['unmod'] = c['frags']
            c['frags'] = frags
        # the class-based fragmenter (cached per-residue masses) must obey the same identities
        c['phase'] = 'fragmenter'
        c['frags2'] = None
        pt.Fragmenter(arg if not isinstance(arg, str) else text, mono).fragment(types, charges)
        c['phase'] = 'done'
        if c['M'] is None or c['frags'] is None or c['frags2'] is None:
            ctx.inconclusive_case('monitor not reached')
        else:
            check(ctx, st, c)
            c['frags'], c['text'] = c['frags2'], c['text'] + '  [Fragmenter]'
            c['unmod'] = None
            check(ctx, st, c)
    except Exception as ex:
        ctx.decided()
        ctx.violation('call-raises', {'text': text, 'exception': f'{type(ex).__name__}: {ex}'[:300]})
    finally:
        st.case = None
    n = len(p.seq)
    ctx.sig((n, 'mono' if mono else 'avg', p.features(), p.spelling_classes(), max(charges)),
            n >= 3 or bool(p.all_mods()))
    ctx.sample({'text': text, 'monoisotopic': mono, 'charges': charges})


def run(ctx):
    st = State()
    pt = install(ctx, st)
    ctx.enable_disturb(pt, 0.03)     # other legitimate library calls interleaved between cases (vf.gen.disturb)
    cfg = gp.GenCfg(min_len=2, max_len=15, letters=LETTERS, weights=dict(gp.W_NUMFORM), p_labile=0, p_unknown=0,
                    p_interval=0, p_charge=0.15, p_adducts=0, p_isotope=0, p_static=0, p_tag=0, p_alt=0, p_mult=0.1, p_res=0.25)
    small = gp.GenCfg(min_len=2, max_len=8, letters=LETTERS, weights=dict(gp.W_NUMFORM), p_labile=0, p_unknown=0,
                      p_interval=0, p_charge=0.15, p_adducts=0, p_isotope=0, p_static=0, p_tag=0, p_alt=0, p_mult=0.1, p_res=0.3)
    for i in range(ctx.n(5000, 200000)):
        p = gp.gen_pep(ctx.rng, small if i % 2 else cfg)
        for m in p.all_mods():
            m.mult = min(m.mult, 3)
        mono = ctx.rng.random() < 0.6
        charges = [1, 2, 3, 4] if ctx.rng.random() < 0.25 else [1, 2]
        run_case(ctx, st, pt, p, mono, charges)
    # protein-sized chains (100..160 residues, past any length threshold of a fast path): terminal series only
    import dataclasses as _dc
    longc = _dc.replace(cfg, min_len=100, max_len=160, p_res=0.03, p_nterm=0.6, p_cterm=0.6)
    for _ in range(ctx.n(32, 800)):
        p = gp.gen_pep(ctx.rng, longc)
        for m in p.all_mods():
            m.mult = min(m.mult, 3)
        run_case(ctx, st, pt, p, ctx.rng.random() < 0.4, [1, 2], types=['b', 'y', 'a', 'c', 'x', 'z'])
    ctx.extra['identities_evaluated'] = st.identities


def reproduce(kf_id):
    import peptacular as pt
    if kf_id == 'K9':
        K = const(True)
        f = {(x.ion_type, x.start, x.end): x.mass for x in pt.fragment('PEPTIDEK', ['b', 'x', 'bx'], 1)}
        M = pt.mass('PEPTIDEK')
        return abs(f[('bx', 2, 5)] - (f[('b', 0, 5)] + f[('x', 2, 8)] - M - K['H+'])) > 1e-5
    return None


def replay(ctx, case):
    st = State()
    pt = install(ctx, st)
    run_case(ctx, st, pt, rp.from_json(case['pep']), case['monoisotopic'], case['charges'])
