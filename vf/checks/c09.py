"""C09 - the parser is total; unresolvable modifications are rejected when their mass/composition is asked."""
import itertools
import signal

from vf.engine.sysmon import Observers, StepBudgetExceeded
from vf.gen import pep as gp
from vf.ref import pep as rp

DECIDING = ['peptacular.proforma.proforma_parser.parse']
SHARDS = {'quick': 16, 'thorough': 16}
TIMEOUT = {'quick': 1500, 'thorough': 10800}
EXHAUSTIVE = {'quick': 'every string of 0..4 tokens over the 28-token notation alphabet (637 421 strings)',
              'thorough': 'every string of 0..5 tokens over the 28-token notation alphabet (17 847 789 strings)'}
RULE = ('strings: exhaustive token strings over {P,K,B,X,[ ] ( ) { } < > ? - + / ^ @ # | : , . 1 2 Acetyl \\ space}, '
        'grammar-aware decorations of valid strings (a ^n multiplier after every kind of bracket group, two-token '
        'mutations), every vocabulary entry without mass and composition for the deferred clause, '
        'random strings up to 40 tokens, single-token mutations (delete/insert/swap/duplicate) of generated valid '
        'strings, 10 positions (incl. the ProForma spellings @N-term / @C-term) x a corpus of unresolvable modification '
        'values (incl. the empty value and alternatives none of which resolves; half of the requests preceded by the mass '
        'or composition of a valid string with bare localisation references) for the deferred clause, and 10 positions x 60 malformed values (unbalanced isotope blocks, empty '
        'values, dangling signs/tags/alternatives) + 43 malformed adduct lists and global rules whose parse, mass and '
        'comp run under the logical step budget (a loop or a foreign exception is the violation; a lenient numeric '
        'reading is not judged). '
        'signature = (clause, outcome class, class of first token, class of last token, set of bracket kinds present); '
        'non-trivial = the string contains at least one non-residue token')
ASSUMPTIONS = ['hangs are decided on logical steps (sys.monitoring LINE events inside peptacular/, budget '
               '2000+500*len), wall clock only ever yields inconclusive',
               'exceptions observed at the public boundary of parse/serialize/is_sequence_valid/mass/comp']

TOKENS = ['P', 'K', 'B', 'X', '[', ']', '(', ')', '{', '}', '<', '>', '?', '-', '+', '/', '^', '@', '#', '|', ':',
          ',', '.', '1', '2', 'Acetyl', '\\', ' ']
CLASS = {t: ('R' if t in 'PKBX' else 'N' if t in '12' else 'A' if t == 'Acetyl' else t) for t in TOKENS}

UNRESOLVABLE = ['INVALID', 'U:INVALID', 'UNIMOD:999999', 'M:nope', 'MOD:99999', 'X:nope', 'Obs:abc', 'INFO:only',
                'Glycan:Foo', 'Formula:Xx2', '', 'NotAMod|', '|INFO:custom', 'NotAMod|INFO:x']
# valid strings whose localisation / cross-link references weigh nothing by themselves: asked for between the cases of the
# deferred clause (a reference resolved to 0.0 must not make the library accept an empty or unknown value afterwards)
TAGGED = ['EM[Oxidation]EVT[#g1(0.01)]S[#g1(0.09)]ES[Phospho#g1(0.90)]PEK', 'PEPT[#g1]IDE[Phospho#g1]',
          'K[#XL1]PEPK[XLMOD:02001#XL1]', '[#g2]-PEPT[Acetyl#g2]IDE', 'PEPT[+15.995#s1]IDE[#s1]']
# malformed values: the statement's outcome classes still apply (no hang, no unrelated exception); whether a lenient
# reading that returns a number is right is NOT judged here (only hang / foreign exception are violations)
MALFORMED = ['Formula:[13C2', 'Formula:C2]H', 'Formula:[[C]]', 'Formula:C-', 'Formula:[13C2]]', 'Formula:', 'Glycan:',
             'Glycan:Hex(', 'Obs:', 'Formula:C2 H', 'U:', 'Formula:[]', 'Formula:C2[', 'Formula:]', 'Formula:[13C',
             'Glycan:Hex-', 'Glycan:2', 'Formula:2', 'Formula:C2H3.', 'Formula:C--2', 'Obs:+', 'Obs:1e',
             'Formula:[13C2]H[', 'Glycan:HexNAc(2', 'M:', 'X:', 'R:', 'G:', 'Formula:c2', 'Formula: C2', '+', '-',
             '+-1', '1.2.3', 'Formula:C2H-', '#g1', 'Acetyl#', '#', 'Acetyl|', '|', 'Acetyl||Phospho', 'Acetyl#g1(',
             'Acetyl#g1()', 'Acetyl#g1(x)', '', ' ', 'Formula:[]]', 'Formula:][', 'Formula:[C]2]', 'Glycan:Hex]',
             'Glycan:[Hex]', 'Formula:C2|]', ':', '::', 'Formula::C', 'INFO:', 'Obs:--1', 'Formula:C1e5', 'Formula:C²']
MALFORMED_TAILS = ['PEPTIDE/2[]', 'PEPTIDE/2[+2]', 'PEPTIDE/2[+]', 'PEPTIDE/2[,]', 'PEPTIDE/2[+2Na+,]', 'PEPTIDE/2[Na]',
                   'PEPTIDE/2[+1.5Na+]', 'PEPTIDE/2[+Na++]', 'PEPTIDE/2[+Na+-]', 'PEPTIDE/0', 'PEPTIDE/-0',
                   'PEPTIDE/2[+Na+][+K+]', 'PEPTIDE/2[[+Na+]]', 'PEPTIDE/2[+2]]', '<>PEPTIDE', '<[]@P>PEPTIDE',
                   '<[Acetyl]@>PEPTIDE', '<[Acetyl]@,>PEPTIDE', '<[Acetyl]@PP>PEPTIDE', '<@P>PEPTIDE',
                   '<[Acetyl]@P@K>PEPTIDE', '<13C15N>PEPTIDE', '<C>PEPTIDE', '<[Acetyl]>PEPTIDE', '<[Acetyl]@P,>PEPTIDE',
                   'PEP[Acetyl]^0TIDE', '{+1}^2PEPTIDE', '<[Formula:]C]@P>PEPTIDE', '<[Formula:[[C]]]@P>PEPTIDE',
                   '<[Acetyl]@N-term:P>PEPTIDE', '<[Acetyl]@n-term,c-term>PEPTIDE',
                   # rule targets that are regular-expression metacharacters (a target is a residue, not a pattern)
                   '<[Oxidation]@(>PEP', '<[Oxidation]@.>PEP', '<[Oxidation]@*>PEP', '<[Oxidation]@\\>PEP',
                   '<[Oxidation]@)>PEP', '<[Oxidation]@+>PEP', '<[Oxidation]@?>PEP', '<[Oxidation]@P|E>PEP',
                   '<[Oxidation]@^>PEP', '<[Oxidation]@$>PEP', '<13C><[Oxidation]@(>PEP', '<[Oxidation]@{2}>PEP']
POSITIONS = {
    'residue': 'PEP[{v}]TIDE', 'nterm': '[{v}]-PEPTIDE', 'cterm': 'PEPTIDE-[{v}]', 'labile': '{{{v}}}PEPTIDE',
    'unknown': '[{v}]?PEPTIDE', 'interval': 'PE(PT)[{v}]IDE', 'static': '<[{v}]@P>PEPTIDE',
    'static-nterm': '<[{v}]@N-Term>PEPTIDE', 'static-nterm-proforma': '<[{v}]@N-term>PEPTIDE',
    'static-cterm-proforma': '<[{v}]@K,C-term>PEPTIDE',
}


class ChunkTimeout(BaseException):
    pass


def _alarm(signum, frame):
    raise ChunkTimeout()


class State:
    def __init__(self, ctx):
        self.ctx = ctx
        self.cur = None          # string being parsed at depth 0
        self.outcome = None
        self.accepted = None


def shape(s_tokens):
    return ''.join(CLASS.get(t, 'c') for t in s_tokens[:6])


def install(ctx, st: State):
    def parse_post(call):
        if call.depth == 0:
            st.outcome = 'accepted'
            st.accepted = call.result

    def parse_raise(call):
        if call.depth == 0:
            e = call.exc
            if isinstance(e, StepBudgetExceeded):
                st.outcome = 'hang'
            elif isinstance(e, ValueError):
                st.outcome = 'rejected:' + type(e).__name__
            else:
                st.outcome = 'crash:' + type(e).__name__

    ctx.eng.attach('peptacular.proforma.proforma_parser.parse', post=parse_post, on_raise=parse_raise)


def one_string(ctx, st: State, pt, s: str, tokens, obs=None, clause='total'):
    """Run the totality clause on one string under the monitors."""
    ctx.begin({'clause': clause, 'string': s})
    st.outcome, st.accepted = None, None
    if obs is not None:
        obs.begin_call(2000 + 500 * len(s))
    try:
        pt.parse(s)
    except StepBudgetExceeded:
        st.outcome = 'hang'
    except ChunkTimeout:
        raise
    except BaseException:
        pass
    finally:
        if obs is not None:
            obs.end_call()
    out = st.outcome
    ctx.decided()
    if out is None:
        ctx.inconclusive_case('parse monitor not reached')
        return
    if out == 'hang':
        ctx.violation('parse-hangs', {'string': s})
    elif out.startswith('crash:'):
        ctx.violation('parse-raises-' + out[6:], {'string': s, 'exception': out[6:]})
    elif out == 'accepted':
        a = st.accepted
        for plus in (False, True):
            try:
                r = pt.serialize(a, plus)
                if not isinstance(r, str):
                    ctx.violation('serialize-returns-non-string', {'string': s, 'type': type(r).__name__})
            except ChunkTimeout:
                raise
            except BaseException as e:
                ctx.violation('accepted-but-unserializable', {'string': s, 'include_plus': plus,
                                                              'exception': type(e).__name__, 'msg': str(e)[:200]})
            ctx.decided()
    # validity predicate never raises, and says False for everything rejected
    try:
        v = pt.is_sequence_valid(s)
        if out.startswith('rejected') and v is not False:
            ctx.violation('is_sequence_valid-true-for-rejected', {'string': s, 'value': repr(v)})
    except ChunkTimeout:
        raise
    except BaseException as e:
        ctx.violation('is_sequence_valid-raises', {'string': s, 'exception': type(e).__name__})
    ctx.decided()
    nontrivial = any(CLASS.get(t, 'c') != 'R' for t in tokens) if tokens else False
    classes = [CLASS.get(t, 'c') for t in tokens]
    ctx.sig((clause, out, classes[0] if classes else '', classes[-1] if classes else '',
             ''.join(sorted(set(c for c in classes if c in '[](){}<>')))), nontrivial)
    if nontrivial and ctx.cases % 5000 == 1:
        ctx.sample({'string': s, 'outcome': out})


def run_strings(ctx, st, pt, strings, clause, obs_lines: Observers = None):
    """strings: iterable of (text, tokens). Fast pass in chunks guarded by a wall-clock alarm; a chunk that
    trips the alarm is re-run string by string under the LINE step budget, which alone decides 'hangs'."""
    chunk = []
    for item in strings:
        chunk.append(item)
        if len(chunk) >= 4000:
            _run_chunk(ctx, st, pt, chunk, clause, obs_lines)
            chunk = []
    if chunk:
        _run_chunk(ctx, st, pt, chunk, clause, obs_lines)


def _run_chunk(ctx, st, pt, chunk, clause, obs_lines):
    if obs_lines is not None and obs_lines.active:
        for s, toks in chunk:
            one_string(ctx, st, pt, s, toks, obs_lines, clause)
        return
    done = 0
    signal.signal(signal.SIGALRM, _alarm)
    signal.setitimer(signal.ITIMER_REAL, 120.0)
    try:
        for s, toks in chunk:
            one_string(ctx, st, pt, s, toks, None, clause)
            done += 1
        signal.setitimer(signal.ITIMER_REAL, 0)
    except ChunkTimeout:
        signal.setitimer(signal.ITIMER_REAL, 0)
        ctx.note('chunks_rerun_under_step_budget')
        obs = Observers()
        if not obs.start(raises=False, reach=False, lines=True):
            ctx.inconclusive_case('wall-clock alarm fired and sys.monitoring is unavailable')
            return
        try:
            for s, toks in chunk[done:]:
                one_string(ctx, st, pt, s, toks, obs, clause)
        finally:
            obs.stop()


def exhaustive(ctx, max_tokens):
    i = 0
    for n in range(0, max_tokens + 1):
        for combo in itertools.product(TOKENS, repeat=n):
            if i % ctx.nshards == ctx.shard:
                yield ''.join(combo), combo
            i += 1


def random_strings(ctx, count):
    rng = ctx.rng
    weights = [4 if t in 'PKBX' else 1 for t in TOKENS]
    for _ in range(count):
        n = rng.randint(6, 40)
        toks = rng.choices(TOKENS, weights=weights, k=n)
        yield ''.join(toks), tuple(toks)


def mutations(ctx, n_valid):
    rng = ctx.rng
    cfg = gp.GenCfg(max_len=8)
    for _ in range(n_valid):
        if rng.random() < 0.2:
            peps = [gp.gen_pep(rng, cfg) for _ in range(rng.randint(2, 3))]
            base = rp.write_multi(peps, [rng.random() < 0.5 for _ in peps[1:]])
        else:
            base = rp.write(gp.gen_pep(rng, cfg))
        chars = list(base)
        yield base, tuple(chars)
        for _ in range(12):
            c = list(chars)
            op = rng.choice(['delete', 'insert', 'swap', 'duplicate'])
            if not c:
                op = 'insert'
            pos = rng.randrange(len(c)) if c else 0
            if op == 'delete':
                del c[pos]
            elif op == 'insert':
                c.insert(pos, rng.choice(TOKENS))
            elif op == 'swap' and len(c) > 1:
                pos = min(pos, len(c) - 2)
                c[pos], c[pos + 1] = c[pos + 1], c[pos]
            else:
                c.insert(pos, c[pos])
            yield ''.join(c), tuple(c)


def decorated(ctx, n_valid):
    """grammar-aware decorations of valid strings: a multiplier after every kind of bracket group (incl. global rules,
    isotope labels and adduct blocks), doubled separators, and two-token mutations"""
    rng = ctx.rng
    cfg = gp.GenCfg(max_len=6, p_charge=0.6, p_adducts=0.7, p_static=0.4, p_isotope=0.3, p_labile=0.3, p_unknown=0.3,
                    p_interval=0.3)
    for _ in range(n_valid):
        base = rp.write(gp.gen_pep(rng, cfg))
        closers = [i for i, ch in enumerate(base) if ch in ']}>)']
        for i in closers:
            for k in ('^0', '^1', '^2', '^12', '^', '^-1', '^2^3'):
                if rng.random() < 0.35:
                    t = base[:i + 1] + k + base[i + 1:]
                    yield t, tuple(t)
        for _j in range(6):
            c = list(base)
            for _k in range(2):
                pos = rng.randrange(len(c) + 1)
                op = rng.choice(['insert', 'insert', 'delete', 'dup'])
                if op == 'insert' or not c:
                    c.insert(pos, rng.choice(TOKENS))
                elif op == 'delete':
                    del c[min(pos, len(c) - 1)]
                else:
                    pos = min(pos, len(c) - 1)
                    c.insert(pos, c[pos])
            yield ''.join(c), tuple(c)


def deferred(ctx, pt):
    """Syntactically valid string + unresolvable modification: parse accepts, mass/comp must raise ValueError."""
    i = 0
    for pos, tmpl in POSITIONS.items():
        for v in UNRESOLVABLE:
            for fn_name in ('mass', 'comp'):
                i += 1
                if not ctx.mine(i):
                    continue
                if v == 'Formula:Xx2' and fn_name == 'comp':
                    continue  # a composition with an unknown symbol is returned as written; mass must reject it
                s = tmpl.format(v=v)
                ctx.begin({'clause': 'deferred', 'string': s, 'function': fn_name})
                if ctx.rng.random() < 0.5:
                    try:
                        getattr(pt, ctx.rng.choice(['mass', 'comp']))(ctx.rng.choice(TAGGED))
                    except Exception:
                        pass
                try:
                    pt.parse(s)
                except BaseException as e:
                    ctx.violation('deferred-parse-rejects-valid-syntax', {'string': s, 'exception': type(e).__name__})
                    ctx.decided()
                    continue
                try:
                    r = getattr(pt, fn_name)(s)
                    ctx.violation('unresolvable-mod-silently-accepted',
                                  {'string': s, 'function': fn_name, 'returned': repr(r)[:120]})
                except ValueError:
                    pass
                except BaseException as e:
                    ctx.violation('unresolvable-mod-wrong-exception',
                                  {'string': s, 'function': fn_name, 'exception': type(e).__name__,
                                   'msg': str(e)[:160]})
                ctx.decided()
                ctx.sig(('deferred', pos, v.split(':')[0], fn_name), True)
    # vocabulary entries that exist but carry neither a mass nor a composition: nothing to count, so they must be rejected
    from vf.ref import obo
    uni_names = {e.name for e in obo.unimod()}
    massless = [('MOD:' + e.id, e.name if e.name not in uni_names else None) for e in obo.psimod()
                if e.mono is None and e.avg is None and e.raw_comp is None]
    # XLMOD is documented through prefixed spellings only (a bare XLMOD name may name a Unimod / PSI-MOD entry)
    massless += [('XLMOD:' + e.id, 'X:' + e.name) for e in obo.xlmod() if e.mono is None and e.raw_comp is None]
    for acc, name in massless:
        for spelled in (acc, name if name and gp.writable(name) and name.count(':') <= (1 if name.startswith('X:') else 0)
                        else None):
            if spelled is None:
                continue
            i += 1
            if not ctx.mine(i):
                continue
            s = POSITIONS[list(POSITIONS)[i % len(POSITIONS)]].format(v=spelled)
            for fn_name in ('mass', 'comp'):
                ctx.begin({'clause': 'deferred', 'string': s, 'function': fn_name})
                try:
                    r = getattr(pt, fn_name)(s)
                    ctx.violation('unresolvable-mod-silently-accepted',
                                  {'string': s, 'function': fn_name, 'returned': repr(r)[:120]})
                except ValueError:
                    pass
                except BaseException as e:
                    ctx.violation('unresolvable-mod-wrong-exception',
                                  {'string': s, 'function': fn_name, 'exception': type(e).__name__, 'msg': str(e)[:160]})
                ctx.decided()
            ctx.sig(('deferred-massless-entry', acc.split(':')[0], i % len(POSITIONS), spelled == acc), True)
    # global isotope labels that name no isotope, and adduct ions of an unknown element
    extra = [('isotope-label', '<bad>PEPTIDE', ('mass', 'comp')), ('isotope-label', '<Xx>PEPTIDE', ('mass', 'comp')),
             ('isotope-label', '<C13>PEPTIDE', ('mass', 'comp')), ('isotope-label', '<13C><bad>PEPTIDE', ('mass', 'comp')),
             ('isotope-label', '<99C>PEPTIDE', ('mass',)), ('adduct', 'PEPTIDE/2[+Xx+]', ('mass',)),
             ('adduct', 'PEPTIDE/1[+Na+,+Qq+]', ('mass',)), ('adduct', 'PEP[Acetyl]TIDE/2[bad]', ('mass',))]
    for pos, s, fns in extra:
        for fn_name in fns:
            i += 1
            if not ctx.mine(i):
                continue
            ctx.begin({'clause': 'deferred', 'string': s, 'function': fn_name})
            try:
                pt.parse(s)
            except BaseException as e:
                ctx.violation('deferred-parse-rejects-valid-syntax', {'string': s, 'exception': type(e).__name__})
                ctx.decided()
                continue
            try:
                r = getattr(pt, fn_name)(s)
                ctx.violation('unresolvable-mod-silently-accepted',
                              {'string': s, 'function': fn_name, 'returned': repr(r)[:120]})
            except ValueError:
                pass
            except BaseException as e:
                ctx.violation('unresolvable-mod-wrong-exception',
                              {'string': s, 'function': fn_name, 'exception': type(e).__name__, 'msg': str(e)[:160]})
            ctx.decided()
            ctx.sig(('deferred', pos, s, fn_name), True)


def malformed(ctx, pt, obs):
    """Malformed modification / adduct / rule texts: parse accepts or rejects with a ValueError; if it accepts, mass
    and comp either return or raise a ValueError-family error - under a logical step budget, so a loop is a verdict."""
    cases = [(pos, tmpl.format(v=v)) for pos, tmpl in POSITIONS.items() for v in MALFORMED]
    cases += [('tail', s) for s in MALFORMED_TAILS]
    for i, (pos, s) in enumerate(cases):
        if ctx.mine(i):
            malformed_one(ctx, pt, obs, pos, s)


def malformed_one(ctx, pt, obs, pos, s):
    for _once in (1,):
        ctx.begin({'clause': 'malformed', 'string': s, 'position': pos})
        try:
            obs.begin_call(20000 + 2000 * len(s))
            try:
                pt.parse(s)
            finally:
                obs.end_call()
        except StepBudgetExceeded:
            ctx.decided()
            ctx.violation('parse-hangs', {'string': s})
            continue
        except ValueError:
            ctx.decided()
            ctx.sig(('malformed', pos, 'rejected'), True)
            continue
        except ChunkTimeout:
            raise
        except BaseException as e:
            ctx.decided()
            ctx.violation('parse-raises-' + type(e).__name__, {'string': s, 'exception': type(e).__name__})
            continue
        for fn_name in ('mass', 'comp'):
            out = 'returned'
            try:
                obs.begin_call(400000)
                try:
                    getattr(pt, fn_name)(s)
                finally:
                    obs.end_call()
            except StepBudgetExceeded:
                out = 'hang'
            except ValueError:
                out = 'ValueError'
            except ChunkTimeout:
                raise
            except BaseException as e:
                out = 'crash:' + type(e).__name__
            ctx.decided()
            if out == 'hang':
                ctx.violation('malformed-mod-' + fn_name + '-hangs', {'string': s, 'function': fn_name})
            elif out.startswith('crash:'):
                ctx.violation('malformed-mod-wrong-exception', {'string': s, 'function': fn_name, 'exception': out[6:]})
            ctx.sig(('malformed', pos, fn_name, out), True)


def long_strings(ctx, n):
    """long valid proteoform strings (200..400 characters) cut at a random place (a VARCHAR cut, a broken line) or
    with one character replaced: the parser must accept or reject them like any other string"""
    rng = ctx.rng
    mods = ['[Oxidation]', '[+15.995]', '[Phospho]', '[Acetyl]', '(?', ')', '[Formula:C2H3NO]', '{Glycan:Hex}', '<13C>',
            '[U:Carbamidomethyl#g1(0.5)]', '[Unimod:4|INFO:x]', '^2', '/2[+2Na+]', '-[Amidated]', '[Acetyl]-']
    for _ in range(n):
        parts = []
        while sum(len(x) for x in parts) < rng.randint(200, 400):
            parts.append(''.join(rng.choice('ACDEFGHIKLMNPQRSTVWY') for _ in range(rng.randint(1, 12))))
            if rng.random() < 0.6:
                parts.append(rng.choice(mods))
        s = ''.join(parts)
        r = rng.random()
        if r < 0.6:
            s = s[:rng.randint(190, len(s))]
        elif r < 0.8:
            k = rng.randrange(len(s))
            s = s[:k] + rng.choice('[](){}<>?-/^@#|:') + s[k + 1:]
        yield s, tuple(s[:6])


def avg_unavailable(ctx, pt):
    """vocabulary entries that have a monoisotopic mass but neither an average mass nor a composition: asking for the
    average mass must raise, not count the modification as zero"""
    from vf.ref import obo
    rows = [('XLMOD:' + e.id) for e in obo.xlmod() if e.mono is not None and e.avg is None and e.raw_comp is None]
    rows += [('MOD:' + e.id) for e in obo.psimod() if e.mono is not None and e.avg is None and e.raw_comp is None]
    for i, acc in enumerate(rows):
        if not ctx.mine(i):
            continue
        s = POSITIONS[list(POSITIONS)[i % len(POSITIONS)]].format(v=acc)
        ctx.begin({'clause': 'deferred', 'string': s, 'function': 'mass', 'monoisotopic': False})
        try:
            with_mod = pt.mass(s, monoisotopic=False)
            ctx.violation('unresolvable-average-mass-silently-accepted', {'string': s, 'returned': with_mod})
        except ValueError:
            pass
        except BaseException as e:
            ctx.violation('unresolvable-mod-wrong-exception', {'string': s, 'function': 'mass(average)',
                                                               'exception': type(e).__name__})
        ctx.decided()
        ctx.sig(('deferred-average-unavailable', acc.split(':')[0], i % len(POSITIONS)), True)


def run(ctx):
    import peptacular as pt
    st = State(ctx)
    install(ctx, st)
    obs = Observers()
    obs.start(raises=True, reach=True, lines=False)
    try:
        run_strings(ctx, st, pt, exhaustive(ctx, 4 if ctx.quick() else 5), 'total-exhaustive')
        run_strings(ctx, st, pt, random_strings(ctx, ctx.n(60000, 1200000)), 'total-random')
        run_strings(ctx, st, pt, mutations(ctx, ctx.n(6000, 120000)), 'total-mutation')
        run_strings(ctx, st, pt, decorated(ctx, ctx.n(4000, 80000)), 'total-decorated')
        run_strings(ctx, st, pt, long_strings(ctx, ctx.n(1500, 30000)), 'total-long')
        deferred(ctx, pt)
        avg_unavailable(ctx, pt)
    finally:
        obs.stop()
    ctx.extra.update(obs.summary())
    # a sampled prefix under the LINE step budget (logical-step hang detector actually exercised)
    lines = Observers()
    if lines.start(raises=False, reach=False, lines=True):
        try:
            run_strings(ctx, st, pt, exhaustive(ctx, 3), 'total-stepbudget', lines)
            run_strings(ctx, st, pt, random_strings(ctx, ctx.n(4000, 40000)), 'total-stepbudget', lines)
            malformed(ctx, pt, lines)
        finally:
            lines.stop()
        ctx.extra['max_line_events_per_call'] = lines.max_steps_seen
        ctx.extra['step_budget_cases'] = 1
    else:
        ctx.note('sys.monitoring unavailable: step budget not exercised')


def replay(ctx, case):
    import peptacular as pt
    st = State(ctx)
    install(ctx, st)
    s = case['string']
    if case.get('clause') == 'malformed':
        lines = Observers()
        if lines.start(raises=False, reach=False, lines=True):
            try:
                malformed_one(ctx, pt, lines, case.get('position', 'tail'), s)
            finally:
                lines.stop()
        return
    if case.get('clause') == 'deferred':
        try:
            r = getattr(pt, case['function'])(s)
            ctx.violation('unresolvable-mod-silently-accepted', {'string': s, 'returned': repr(r)})
        except ValueError as e:
            print('expected: ValueError family; observed:', type(e).__name__)
        except BaseException as e:
            ctx.violation('unresolvable-mod-wrong-exception', {'string': s, 'exception': type(e).__name__})
        return
    obs = Observers()
    on = obs.start(raises=True, reach=False, lines=True)
    try:
        one_string(ctx, st, pt, s, tuple(s), obs if on else None, case.get('clause', 'total'))
    finally:
        obs.stop()
    print('expected: accepted or a ValueError-family rejection; observed outcome:', st.outcome)
    print('exceptions raised inside the library (incl. swallowed):', dict(obs.raises))


SUITE_WORKLOAD = True


def install_generic(ctx):
    """monitor for the repository's own suite: parse either returns or raises a ValueError-family error"""
    def on_raise(call):
        if call.depth == 0 and isinstance(call.args[0] if call.args else None, str):
            ctx.decided()
            if not isinstance(call.exc, ValueError):
                ctx.violation('parse-raises-' + type(call.exc).__name__, {'string': call.args[0]})

    def post(call):
        if call.depth == 0:
            ctx.decided()

    ctx.eng.attach('peptacular.proforma.proforma_parser.parse', post=post, on_raise=on_raise)
