"""Set-comprehension model of enzymatic digestion with an independent cleavage-site finder."""
import re
from typing import Iterable, List, Optional, Set, Tuple

# named proteases as explicit residue predicates: (after-set, before-set, not-before-set, needs-next)
NAMED = {
    'arg-c': ('after', 'R', None),
    'asp-n': ('before', 'D', None),
    'chymotrypsin': ('after', 'FWYL', 'notP'),
    'chymotrypsin/P': ('after', 'FWYL', None),
    'promega-chymotrypsin-high-specificity': ('after', 'YFW', None),
    'promega-chymotrypsin-low-specificity': ('after', 'YFWLM', None),
    'glu-c': ('after', 'E', None),
    'lys-c': ('after', 'K', None),
    'lys-n': ('before', 'K', None),
    'proteinase k': ('after', 'AEFILTVWY', None),
    'trypsin': ('after', 'KR', 'nextnotP'),
    'trypsin/P': ('after', 'KR', None),
    'proalanase': ('after', 'PA', None),
    'elastase': ('after', 'AGSVLI', None),
    'pepsin': ('after', 'FLWY', None),
    'thermolysin': ('after', 'LFIAVM', None),
    'proalanase-low-specificity': ('after', 'PASG', None),
    'non-specific': ('all', '', None),
    'no-cleave': ('none', '', None),
}
NON_SPECIFIC = {'non-specific', '()'}


def sites_named(protein: str, name: str) -> List[int]:
    kind, letters, extra = NAMED[name]
    n = len(protein)
    out = []
    for i in range(n + 1):
        if kind == 'all':
            out.append(i)
        elif kind == 'none':
            continue
        elif kind == 'after':
            if i >= 1 and protein[i - 1] in letters:
                if extra == 'notP' and i < n and protein[i] == 'P':
                    continue
                if extra == 'nextnotP' and not (i < n and protein[i] != 'P'):
                    continue
                out.append(i)
        elif kind == 'before':
            if i < n and protein[i] in letters:
                out.append(i)
    return out


def sites_regex(protein: str, pattern: str) -> List[int]:
    """Anchored match at every position: zero-width match at i -> site i, consuming match at i -> site i+1."""
    rx = re.compile(pattern)
    out = []
    for i in range(len(protein) + 1):
        m = rx.match(protein, i)
        if m is None:
            continue
        out.append(i if m.end() == m.start() else i + 1)
    return out


def sites(protein: str, rule: str) -> List[int]:
    if rule in NAMED:
        return sites_named(protein, rule)
    return sites_regex(protein, rule)


def non_specific_spans(n: int, min_len: Optional[int], max_len: Optional[int]) -> List[Tuple[int, int, int]]:
    lo = 1 if min_len is None else min_len
    hi = n - 1 if max_len is None else min(max_len, n - 1)
    return [(s, e, 0) for s in range(n) for e in range(s + 1, n + 1) if lo <= e - s <= hi]


def spans(n: int, site_list: Iterable[int], missed: int, semi: bool, min_len: Optional[int],
          max_len: Optional[int]) -> Set[Tuple[int, int, int]]:
    S = sorted(set(x for x in site_list if 0 <= x <= n) | {0, n})
    inner = [x for x in S if 0 < x < n]
    lo = 1 if min_len is None else min_len
    hi = n if max_len is None else max_len

    def count(s, e):
        return sum(1 for x in inner if s < x < e)

    enz = {(s, e) for s in S for e in S if s < e and count(s, e) <= missed}
    out = set(enz)
    if semi:
        for (s, e) in enz:
            for e2 in range(s + 1, e):
                out.add((s, e2))
            for s2 in range(s + 1, e):
                out.add((s2, e))
    return {(s, e, count(s, e)) for (s, e) in out if lo <= e - s <= hi}
