"""C18 - condensing modifications to mass shifts preserves the peptide."""
from vf.gen import pep as gp
from vf.ref import atoms, chem
from vf.ref import pep as rp
from vf.ref.pep import Pep

DECIDING = ['peptacular.mass_calc.condense_to_mass_mods']
RULE = ('generated annotations (residue, terminal, labile, static incl. N-Term/C-Term targets, isotope labels, '
        'unknown-position and interval modifications, charge/adducts) x include_plus x precision 3..8; post-condition on '
        'condense_to_mass_mods: same residues, only numeric modifications, per-residue and terminal shifts equal the '
        'reference shifts of what sat there (rules and labels expanded per residue), mass(output) == mass(input) within '
        '10^-p per written shift + 1e-6 per named modification, unmodified peptides unchanged. signature = (modification '
        'placements, labels, include_plus, precision); non-trivial = at least two modified sites or a global rule/label')
ASSUMPTIONS = ['vocabulary masses are tabulated to six decimals while the label path uses compositions: 1e-6 per named '
               'modification copy is allowed', 'modifications of a-priori known mass only']
LEVEL_TEXT = ('Every condense_to_mass_mods execution is compared site by site with reference shifts and by total mass; held '
              'on the executions observed.')
TECHNIQUE = 'runtime monitoring: post-condition on condense_to_mass_mods with per-site reference shifts and mass relation'

LETTERS = list('ACDEFGHIKLMNPQRSTVWY')


class State:
    def __init__(self):
        self.case = None


def install(ctx, st: State):
    import peptacular as pt

    def post(call):
        if call.depth == 0 and st.case is not None:
            st.case['result'] = call.result

    def on_raise(call):
        if call.depth == 0 and st.case is not None:
            st.case['exc'] = call.exc

    ctx.eng.attach('peptacular.mass_calc.condense_to_mass_mods', post=post, on_raise=on_raise)
    return pt


def table_copies(m) -> int:
    """number of tabulated vocabulary masses that go into one modification (x multiplier)"""
    if m.kind.startswith('glycan'):
        from vf.ref import glycan as rg
        toks = rg.greedy(m.text.split(':', 1)[1].split('#')[0].split('|')[0]) or []
        return m.mult * max(1, int(sum(abs(float(c or 1)) for _n, c in toks)))
    return m.mult if m.named else 0


def label_shift(comp: dict, labels) -> float:
    if not labels:
        return 0.0
    lm = rp.label_map(labels)
    return sum(cnt * (atoms.mono(lm[el]) - atoms.mono(el)) for el, cnt in comp.items() if el in lm)


def correct_shifts(p: Pep):
    """reference shift per residue / terminus / labile group / unknown group / interval for a correct condensation"""
    res = []
    for i, aa in enumerate(p.seq):
        s = sum(m.mass() for m in p.res.get(i, []))
        for r in p.static:
            for t in r.targets:
                if t == aa:
                    s += sum(m.mass() for m in r.mods)
        s += label_shift(chem.RESIDUES[aa], p.isotope)
        res.append(s)
    nterm = sum(m.mass() for m in p.nterm) + label_shift({'H': 1}, p.isotope)
    cterm = sum(m.mass() for m in p.cterm) + label_shift({'O': 1, 'H': 1}, p.isotope)
    for r in p.static:
        for t in r.targets:
            if t == 'N-Term':
                nterm += sum(m.mass() for m in r.mods)
            elif t == 'C-Term':
                cterm += sum(m.mass() for m in r.mods)
    labile = sum(m.mass() for m in p.labile)
    unknown = sum(m.mass() for m in p.unknown)
    intervals = sorted((iv.start, iv.end, iv.ambiguous, round(sum(m.mass() for m in iv.mods), 4)) for iv in p.intervals)
    return res, nterm, cterm, labile, unknown, intervals


def run_case(ctx, st, pt, p: Pep, include_plus, precision):
    text = rp.write(p)
    ctx.begin({'text': text, 'pep': rp.to_json(p), 'include_plus': include_plus, 'precision': precision})
    st.case = {}
    try:
        r_ = ctx.rng.random()
        if r_ < 0.65:
            arg = text
        elif r_ < 0.8:
            arg = pt.parse(text)
        else:
            # an annotation object with a history: other queries were answered on it (or on the object it was copied
            # from) before it is condensed
            arg = pt.parse(text)
            with ctx.eng.suspend():
                try:
                    arg.count_residues()
                    list(arg.split())
                    pt.mass(arg)
                except Exception:
                    pass
                if ctx.rng.random() < 0.5:
                    arg = arg.copy()
        pt.condense_to_mass_mods(arg, include_plus, precision)
    except Exception:
        pass
    c, st.case = st.case, None
    ctx.decided()
    if 'exc' in c:
        ctx.violation('condense_to_mass_mods-raises', {'text': text, 'exception': f'{type(c["exc"]).__name__}: '
                                                                                   f'{c["exc"]}'[:200]})
        return
    out = c.get('result')
    if out is None:
        ctx.inconclusive_case('monitor not reached')
        return
    info = {'text': text, 'output': out, 'include_plus': include_plus, 'precision': precision}
    try:
        o = rp.observed_fields(pt.parse(out))
    except Exception as ex:
        ctx.violation('output-does-not-parse', dict(info, exception=type(ex).__name__))
        return
    # residues kept, only numeric modifications
    if o['sequence'] != p.seq:
        ctx.violation('residues-changed', info)
        return
    all_vals = []
    n_shift_copies = 0          # a shift written with ^n counts n times
    for key in ('labile', 'static', 'isotope', 'unknown', 'nterm', 'cterm'):
        all_vals += [v for v, _m in (o[key] or [])]
        n_shift_copies += sum(_m for _v, _m in (o[key] or []))
    for ms in (o['internal'] or {}).values():
        all_vals += [v for v, _m in ms]
        n_shift_copies += sum(_m for _v, _m in ms)
    for iv in (o['intervals'] or []):
        all_vals += [v for v, _m in (iv[3] or [])]
        n_shift_copies += sum(_m for _v, _m in (iv[3] or []))
    ctx.decided()
    if any(not isinstance(v, (int, float)) for v in all_vals):
        ctx.violation('non-numeric-modification-in-output', dict(info, values=[repr(v) for v in all_vals][:8]))
        return
    unmodified = not p.all_mods() and not p.isotope and not p.static and p.charge is None and not p.intervals
    if unmodified:
        ctx.decided()
        if out != text:
            ctx.violation('unmodified-peptide-changed', info)
        return
    # per-site shifts
    tol = 10 ** (-precision) + 1e-9
    named = sum(table_copies(m) for m in rp.placed_mods(p, 'p'))
    res_c, nterm_c, cterm_c, labile_c, unknown_c, intervals_c = correct_shifts(p)
    obs_res = [sum(v * mult for v, mult in (o['internal'] or {}).get(i, [])) for i in range(len(p.seq))]
    obs_n = sum(v * mult for v, mult in (o['nterm'] or []))
    obs_c = sum(v * mult for v, mult in (o['cterm'] or []))
    obs_l = sum(v * mult for v, mult in (o['labile'] or []))
    obs_u = sum(v * mult for v, mult in (o['unknown'] or []))
    obs_iv = sorted((iv[0], iv[1], iv[2], round(sum(v * mult for v, mult in (iv[3] or [])), 4))
                    for iv in (o['intervals'] or []))
    # vocabulary masses are tabulated (6 decimals); with isotope labels the library resolves named entries through
    # their compositions instead, which may differ from the table by up to the C03 bound (1e-4) per copy
    per_copy = 1e-4 if p.isotope else 1e-6
    site_tol = tol + per_copy * max(1, named)
    wrong_sites = [i for i in range(len(p.seq)) if abs(obs_res[i] - res_c[i]) > site_tol]
    term_ok = abs(obs_n - nterm_c) <= site_tol and abs(obs_c - cterm_c) <= site_tol and abs(obs_l - labile_c) <= site_tol
    other_ok = abs(obs_u - unknown_c) <= site_tol * max(1, sum(m.mult for m in p.unknown)) and \
        [x[:3] for x in obs_iv] == [x[:3] for x in intervals_c] and \
        all(abs(a[3] - b[3]) <= site_tol * max(1, sum(m.mult for iv in p.intervals for m in iv.mods)) + 1e-4
            for a, b in zip(obs_iv, intervals_c)) and \
        o['charge'] == p.charge and (o['adducts'] or None) == ([(p.adducts, 1)] if p.adducts else None)
    kf = None
    ctx.decided()
    if wrong_sites or not term_ok or not other_ok:
        ctx.violation('shift-differs-from-what-sat-on-the-site',
                      dict(info, wrong_residues=wrong_sites[:6], observed=[round(x, 6) for x in obs_res][:12],
                           expected=[round(x, 6) for x in res_c][:12], nterm=[obs_n, nterm_c], cterm=[obs_c, cterm_c],
                           labile=[obs_l, labile_c], unknown=[obs_u, unknown_c], intervals=[obs_iv, intervals_c],
                           charge=[o['charge'], p.charge], adducts=[o['adducts'], p.adducts]), kf=kf)
    # total mass relation (library mass on both sides)
    try:
        m_in = pt.mass(text)
        m_out = pt.mass(out)
    except Exception as ex:
        ctx.note('mass_raises:' + type(ex).__name__)
        m_in = m_out = None
    if m_in is not None:
        ctx.decided()
        n_written = max(1, n_shift_copies)
        mtol = 10 ** (-precision) * n_written + per_copy * named + 1e-9
        if p.isotope and p.charge:
            # labelled original: charge carriers are H - e (composition path); output: CODATA proton (1.5e-8 apart)
            mtol += 2e-8 * abs(p.charge)
        if abs(m_in - m_out) > mtol:
            kf = None
            # two mechanisms outside the function itself can separate the two masses; both are emulated exactly
            expect = 0.0
            lm = rp.label_map(p.isotope) if p.isotope else {}
            if p.isotope and (p.charge or p.adducts):
                # K10 (narrowed): mass() of the labelled original also labels the charge carriers / adduct atoms, the
                # condensed string has no label
                if p.adducts:
                    for count, sym, q in rp.parse_adducts(p.adducts):
                        if sym in lm:
                            expect -= count * (atoms.mono(lm[sym]) - atoms.mono(sym))
                    # K2: labelled input = composition path (count*q electrons), output = fast path (q electrons)
                    expect += rp.adduct_mass(p.adducts, True, emulate_k2=True) - rp.adduct_mass(p.adducts, True)
                elif 'H' in lm:
                    expect -= p.charge * (atoms.mono(lm['H']) - atoms.mono('H'))
            if expect != 0.0 and abs((m_out - m_in) - expect) <= mtol + 1e-7:
                label_part = p.isotope and any(sym in lm for _c, sym, _q in (rp.parse_adducts(p.adducts) if p.adducts
                                                                           else [(p.charge, 'H', 1)]))
                kf = 'K10' if label_part else 'K2'
            ctx.violation('mass-not-preserved', dict(info, mass_input=m_in, mass_output=m_out,
                                                     difference=m_out - m_in, shifts_written=n_written), kf=kf)
    ctx.sig((p.features(), sorted(p.isotope), include_plus, precision), len(p.res) + bool(p.nterm) + bool(p.cterm) >= 2
            or bool(p.static) or bool(p.isotope))
    ctx.sample({'text': text, 'output': out})


def cfg():
    return gp.GenCfg(min_len=1, max_len=14, letters=LETTERS, weights=dict(gp.W_MASS), p_res=0.3, p_interval=0.12,
                     p_unknown=0.12, p_charge=0.15, p_isotope=0.2, p_static=0.25, p_static_term=0.3, p_labile=0.2,
                     p_tag=0.03, p_alt=0.03, p_mult=0.1, labels=['13C', '15N', '18O', 'D', '34S', '17O'])


def run(ctx):
    st = State()
    pt = install(ctx, st)
    ctx.enable_disturb(pt, 0.03)     # other legitimate library calls interleaved between cases (vf.gen.disturb)
    g = cfg()
    # the rare residues (U with its selenium, O) under the labels that reach them: every selenium isotope, 33S/36S, T
    g2 = cfg()
    g2.letters = LETTERS + ['U', 'U', 'O', 'C', 'M']
    g2.labels = ['82Se', '76Se', '77Se', '78Se', '74Se', '33S', '36S', 'T', '2H', '13C', '15N']
    g2.p_isotope = 0.7
    for i in range(ctx.n(60000, 600000)):
        p = gp.gen_pep(ctx.rng, g2 if i % 12 == 5 else g)
        if i % 25 == 0:
            p = Pep(p.seq)      # unmodified peptides are returned unchanged
        run_case(ctx, st, pt, p, ctx.rng.random() < 0.5, ctx.rng.randint(3, 8))
    # protein-sized inputs (129..300 residues): shifts far from the N-terminus stay on their residues
    import dataclasses as _dc
    longc = _dc.replace(g, min_len=129, max_len=300, p_res=0.03)
    for _ in range(ctx.n(48, 1500)):
        run_case(ctx, st, pt, gp.gen_pep(ctx.rng, longc), ctx.rng.random() < 0.5, ctx.rng.randint(3, 8))


def reproduce(kf_id):
    import peptacular as pt
    if kf_id == 'K2':
        s = '<13C>PEPTIDE/2[+2Na+]'
        return abs(pt.mass(pt.condense_to_mass_mods(s)) - pt.mass(s)) > 1e-4
    if kf_id == 'K10':
        s = '<D>PEPTIDE/2'
        return abs(pt.mass(pt.condense_to_mass_mods(s)) - pt.mass(s)) > 1e-4
    return None


def replay(ctx, case):
    st = State()
    pt = install(ctx, st)
    run_case(ctx, st, pt, rp.from_json(case['pep']), case['include_plus'], case['precision'])
