"""C19 - combinatorial expansions are exactly the combinatorics of the modified residues."""
import itertools
import math

from vf.gen import pep as gp
from vf.ref import pep as rp
from vf.ref.pep import Pep

DECIDING = ['peptacular.sequence.combinatoric.permutations', 'peptacular.sequence.combinatoric.combinations',
            'peptacular.sequence.combinatoric.combinations_with_replacement', 'peptacular.sequence.combinatoric.product']
RULE = ('generated annotations of length 1..6 (all modification kinds except intervals) x size/repeat in 1..n, None and '
        'n+1; post-condition on the four functions: the returned strings are, in order, the itertools enumeration over the '
        'peptide\'s modified residues wrapped in the unchanged global/labile/terminal annotations (compared by parse-'
        'equality with the generator-side specification), the count equals n!/(n-k)!, C(n,k), C(n+k-1,k), n^k, every result '
        'parses, sizes above n give [] for the non-repeating forms. signature = (function, n, size, modification '
        'placements); non-trivial = at least one residue modification and n >= 2')
ASSUMPTIONS = ['expansions with more than 6000 results are not requested (cost bound)']
LEVEL_TEXT = ('Every expansion execution is compared element-wise, in order, with an itertools enumeration over the '
              'generator-side specification; held on the executions observed.')
TECHNIQUE = 'runtime monitoring: post-condition with itertools reference over the generator-side specification'

LETTERS = list('ACDEFGHIKLMNPQRSTVWY')
FNS = {
    'permutations': (itertools.permutations, lambda n, k: math.perm(n, k) if k <= n else 0),
    'combinations': (itertools.combinations, lambda n, k: math.comb(n, k) if k <= n else 0),
    'combinations_with_replacement': (itertools.combinations_with_replacement,
                                      lambda n, k: math.comb(n + k - 1, k) if n > 0 else 0),
    'product': (lambda it, k: itertools.product(it, repeat=k), lambda n, k: n ** k),
}


class State:
    def __init__(self):
        self.case = None


def install(ctx, st: State):
    import peptacular as pt

    def post(call):
        if call.depth == 0 and st.case is not None:
            st.case['result'] = call.result

    def on_raise(call):
        if call.depth == 0 and st.case is not None:
            st.case['exc'] = call.exc

    for fn in FNS:
        ctx.eng.attach('peptacular.sequence.combinatoric.' + fn, post=post, on_raise=on_raise)
    return pt


def expected_pep(p: Pep, idx) -> Pep:
    q = p.copy()
    q.seq = ''.join(p.seq[i] for i in idx)
    q.res = {}
    for k, i in enumerate(idx):
        if i in p.res:
            q.res[k] = [m for m in p.res[i]]
    return q


def run_case(ctx, st, pt, p: Pep, fn, size):
    text = rp.write(p)
    n = len(p.seq)
    k = n if size is None else size
    ctx.begin({'text': text, 'pep': rp.to_json(p), 'function': fn, 'size': size})
    st.case = {}
    try:
        r = ctx.rng.random()
        if r < 0.6:
            arg = text
        elif r < 0.8:
            arg = pt.parse(text)
        else:
            # an equal annotation whose residue-modification dictionary is in descending key order (as reverse leaves it)
            d = pt.parse(text).dict()
            if d['internal_mods']:
                d['internal_mods'] = dict(sorted(d['internal_mods'].items(), reverse=True))
            arg = pt.create_annotation(**d)
        getattr(pt, fn)(arg, size)
    except Exception:
        pass
    c, st.case = st.case, None
    ctx.decided()
    info = {'text': text, 'function': fn, 'size': size}
    if 'exc' in c:
        ctx.violation('expansion-raises', dict(info, exception=f'{type(c["exc"]).__name__}: {c["exc"]}'[:200]))
        return
    res = c.get('result')
    if res is None:
        ctx.inconclusive_case('monitor not reached')
        return
    enum, count = FNS[fn]
    want_n = count(n, k)
    if len(res) != want_n:
        ctx.violation('wrong-number-of-results', dict(info, expected=want_n, observed=len(res)))
        return
    for j, (idx, s) in enumerate(zip(enum(range(n), k), res)):
        ctx.decided()
        try:
            got = rp.observed_fields(pt.parse(s))
        except Exception as ex:
            ctx.violation('result-does-not-parse', dict(info, index=j, result=s, exception=type(ex).__name__))
            return
        d = rp.diff_fields(rp.expected_fields(expected_pep(p, idx)), got, strict=True)
        if d:
            ctx.violation('result-differs-from-itertools-enumeration', dict(info, index=j, result=s, chosen=list(idx),
                                                                            diff=d))
            return
    ctx.sig((fn, n, 'None' if size is None else 'n+1' if size > n else size, p.features()), bool(p.res) and n >= 2)
    ctx.sample(dict(info, n_results=len(res), first=res[:3]))


def run(ctx):
    st = State()
    pt = install(ctx, st)
    ctx.enable_disturb(pt, 0.03)     # other legitimate library calls interleaved between cases (vf.gen.disturb)
    cfg = gp.GenCfg(min_len=1, max_len=6, letters=LETTERS, weights=dict(gp.W_ALL), p_res=0.4, p_interval=0.0,
                    p_charge=0.25, p_isotope=0.15, p_static=0.2, p_labile=0.2, p_unknown=0.15, p_mult=0.1)
    rng = ctx.rng
    cap = 1200 if ctx.quick() else 6000
    for _ in range(ctx.n(1500, 20000)):
        p = gp.gen_pep(rng, cfg)
        n = len(p.seq)
        if p.res and rng.random() < 0.15:
            # a residue that carries one of its modifications twice keeps both copies in every result
            import copy as _copy
            k_ = rng.choice(sorted(p.res))
            p.res[k_] = p.res[k_] + [_copy.deepcopy(rng.choice(p.res[k_]))]
        # sibling peptide, expanded right after p in the same process: one integer-valued shift written the other way
        # (16 <-> 16.0); each expansion carries the spelling of its own peptide
        sib = None
        cand = [(k_, j) for k_, lst in p.res.items() for j, m in enumerate(lst)
                if isinstance(m.val(), int) or (isinstance(m.val(), float) and m.text.endswith('.0'))]
        if cand and rng.random() < 0.5:
            k_, j = rng.choice(cand)
            m = p.res[k_][j]
            t2 = m.text[:-2] if m.text.endswith('.0') else m.text + '.0'
            sib = p.copy()
            sib.res[k_][j] = rp.M(t2, m.mult, mono=m.mono, avg=m.avg, comp=m.comp, kind=m.kind, named=m.named,
                                  resolvable=m.resolvable)
            if repr(sib.res[k_][j].val()) == repr(m.val()):
                sib = None
        for fn in FNS:
            sizes = [None, n + 1] + [rng.randint(1, n)]
            if rng.random() < 0.3:
                sizes = list(range(1, n + 1)) + [None, n + 1]
            for size in sizes:
                k = n if size is None else size
                if FNS[fn][1](n, k) > cap:
                    continue
                run_case(ctx, st, pt, p, fn, size)
                if sib is not None and rng.random() < 0.5:
                    run_case(ctx, st, pt, sib, fn, size)


def replay(ctx, case):
    st = State()
    pt = install(ctx, st)
    run_case(ctx, st, pt, rp.from_json(case['pep']), case['function'], case['size'])
