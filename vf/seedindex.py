"""Writes seeded/INDEX.md from the meta.json files: seeded change -> what it breaks -> the checks that catch it."""
import glob
import json
import os

import vf


def main():
    rows = []
    for d in sorted(glob.glob(os.path.join(vf.ROOT, 'seeded', '*'))):
        m = os.path.join(d, 'meta.json')
        if not os.path.exists(m):
            continue
        j = json.load(open(m))
        first = 'missed by the first version' if 'missed' in (j.get('notes') or '') else ''
        rows.append((j['seed'], j['property'], j['what_it_breaks'].replace('|', '/'),
                     j['needs_to_manifest'].replace('|', '/'), ', '.join(j['caught_by']), first))
    out = ['# Seeded changes', '',
           'Each directory holds `patch.diff` (a change to /repo that still passes the 111 pinned tests), `demo.py` '
           '(exits 1 with the patch, 0 without) and `meta.json`. `python -m vf.seedtest seeded/<id> --confirm` '
           're-validates one in a scratch worktree and runs the listed checks against it.', '',
           '| seed | written against | what it breaks | needs | caught by | note |', '|---|---|---|---|---|---|']
    for r in rows:
        out.append('| ' + ' | '.join(r) + ' |')
    out.append('')
    out.append(f'{len(rows)} seeded changes; {sum(1 for r in rows if r[5])} were missed by the first version of the '
               'checks and led to a stronger workload or clause (see DESIGN.md, Appendix B.4).')
    open(os.path.join(vf.ROOT, 'seeded', 'INDEX.md'), 'w').write('\n'.join(out) + '\n')
    print(len(rows), 'rows')
    # compact per-property summary (pasted into DESIGN.md, Appendix B.4)
    by = {}
    for seed, prop, _w, _n, caught, first in rows:
        by.setdefault(prop, []).append((seed.split('-')[1] + ('\\*' if first else ''), caught))
    print('| property | seeds (→ catching checks) |')
    print('|---|---|')
    for prop in sorted(by):
        groups = {}
        for letter, caught in by[prop]:
            groups.setdefault(caught, []).append(letter)
        print(f'| {prop} | ' + ' · '.join(f"{', '.join(ls)} → {c or 'nothing'}" for c, ls in groups.items()) + ' |')


if __name__ == '__main__':
    main()
